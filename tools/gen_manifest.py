#!/usr/bin/env python3
"""Writes /verif/MANIFEST.json from the table below (single source of truth for the interface)."""
import json, os

HERE = os.path.dirname(os.path.dirname(os.path.abspath(__file__)))
ALL = ["C%02d" % i for i in range(1, 20)]

CHECKS = {
    "C01": dict(
        cat="exploration", ref="4 C01",
        technique="property-based testing (proptest generators + exhaustive small scope) against a brute-force reference semantics",
        text="Generated frameworks (mixed shapes, four presentations incl. sparse ids and duplicate attack lines, <=9/13 arguments) plus all digraphs on <=4 arguments (both tiers); every SE problem with every selectable encoder must return a member of the brute-force extension family (validity, not a golden output), None only when no stable extension exists, no duplicate or foreign members. Exploration, not proof: the right level because the domain is infinite and the oracle exact only on small graphs. About 1% of the cases are disjoint unions of 3-30 small components (20-200 arguments, interleaved ids, optionally joined into one connected component through a defeated hub) whose exact answers follow by composition from brute force per component. One case in three runs with a SAT backend that returns chosen (non-default) models. 1-3% of the cases are irregular graphs of 14-24 arguments judged by a backtracking reference (validated against brute force at start-up); 2-4% are composites judged exactly by composition: unions of 3-45 components (20-200 arguments), closed-form components up to 60 arguments, one connected component through a defeated hub or through a gate argument attacked from every component (thousands of product extensions). The fixed case list contains one framework of 2^20+12 arguments for the grounded problems; fans of 2^16+ attackers are generated.",
        note="trusted: oracle.rs (brute force <=13 arguments, backtracking reference <=24 arguments, composition rules; all self-tested against brute force at start-up), CaDiCaL"),
    "C02": dict(
        cat="exploration", ref="4 C02/C03",
        technique="property-based testing against a brute-force reference semantics",
        text="Same generators; every DC problem x every argument x every selectable encoder x both entry points (plain / with certificate) on a fresh solver; status must equal 'some reference extension contains the argument', including NO everywhere when no stable extension exists. About 1% of the cases are disjoint unions of 3-30 small components (20-200 arguments, interleaved ids, optionally joined into one connected component through a defeated hub) whose exact answers follow by composition from brute force per component. One case in three runs with a SAT backend that returns chosen (non-default) models. 1-3% of the cases are irregular graphs of 14-24 arguments judged by a backtracking reference (validated against brute force at start-up); 2-4% are composites judged exactly by composition: unions of 3-45 components (20-200 arguments), closed-form components up to 60 arguments, one connected component through a defeated hub or through a gate argument attacked from every component (thousands of product extensions). The fixed case list contains one framework of 2^20+12 arguments for the grounded problems; fans of 2^16+ attackers are generated.",
        note="trusted: oracle.rs (brute force <=13 arguments, backtracking reference <=24 arguments, composition rules; all self-tested against brute force at start-up), CaDiCaL"),
    "C03": dict(
        cat="exploration", ref="4 C02/C03",
        technique="property-based testing against a brute-force reference semantics",
        text="Same generators; every DS problem x every argument x every selectable encoder x both entry points; status must equal 'every reference extension contains the argument' (vacuous YES under ST without extension; DS-CO = grounded membership). About 1% of the cases are disjoint unions of 3-30 small components (20-200 arguments, interleaved ids, optionally joined into one connected component through a defeated hub) whose exact answers follow by composition from brute force per component. One case in three runs with a SAT backend that returns chosen (non-default) models. 1-3% of the cases are irregular graphs of 14-24 arguments judged by a backtracking reference (validated against brute force at start-up); 2-4% are composites judged exactly by composition: unions of 3-45 components (20-200 arguments), closed-form components up to 60 arguments, one connected component through a defeated hub or through a gate argument attacked from every component (thousands of product extensions). The fixed case list contains one framework of 2^20+12 arguments for the grounded problems; fans of 2^16+ attackers are generated.",
        note="trusted: oracle.rs (brute force <=13 arguments, backtracking reference <=24 arguments, composition rules; all self-tested against brute force at start-up), CaDiCaL"),
    "C04": dict(
        cat="exploration", ref="4 C04",
        technique="property-based testing; certificate validity predicate from brute-force reference semantics",
        text="Multi-component-biased generator; every DC/DS problem with certificate: certificate present exactly when promised, is a reference extension (complete for DC-PR), contains / omits the argument, members are the framework's own arguments (label and id) once each. About 1% of the cases are disjoint unions of 3-30 small components (20-200 arguments, interleaved ids, optionally joined into one connected component through a defeated hub) whose exact answers follow by composition from brute force per component. Certificates on frameworks of 20-300 arguments are also judged by polynomial necessary conditions. One case in three runs with a SAT backend that returns chosen (non-default) models. 1-3% of the cases are irregular graphs of 14-24 arguments judged by a backtracking reference (validated against brute force at start-up); 2-4% are composites judged exactly by composition: unions of 3-45 components (20-200 arguments), closed-form components up to 60 arguments, one connected component through a defeated hub or through a gate argument attacked from every component (thousands of product extensions).",
        note="trusted: oracle.rs (brute force <=13 arguments, backtracking reference <=24 arguments, composition rules; all self-tested against brute force at start-up), CaDiCaL"),
    "C07": dict(
        cat="exploration", ref="4 C07",
        technique="property-based testing + exhaustive small scope against the disjunctive reference answer",
        text="Frameworks biased to several components with lists of 1-3 arguments (free, attack endpoints, one per component, repetitions); all static solver types x encoders x credulous/skeptical x both entry points on fresh solvers; status must equal the disjunction over the brute-force extensions, certificates valid for the disjunction. Exhaustive: all graphs on <=3 arguments x all lists of length <=2 (quick) / <=3 (thorough). Every list query is also put to a SAT backend that returns chosen (non-default) models. Lists over composite frameworks of 20-200 arguments (incl. the gate construction) and over irregular graphs of 14-24 arguments are judged exactly. One list in nine has 4-6 members; lists are also picked by semantic role; four model choices per real list for the climbing procedures.",
        note="trusted: oracle.rs (brute force, backtracking reference, composition rules), CaDiCaL"),
    "C08": dict(
        cat="exploration", ref="4 C08",
        technique="model-based stateful property testing (generated update/query histories vs a set model + brute-force semantics)",
        text="Generated histories (5-80 / up to 200 steps, <=7 live arguments out of 10 labels, re-added labels, query bursts) over 11 dynamic solver configurations incl. 7 reservation factors; after every query and in a final sweep, status and certificate must be those of the model's current framework by brute force; Err or panic on a valid step is a failure. The whole history shrinks as one value. One case in three uses labels whose Hash is much coarser than their Eq, one in three a SAT backend returning chosen models; a quarter of the histories run over 2-5 label groups (up to 35 live arguments, exact by composition) and contain bursts that push ids and SAT variables into the hundreds. The fixed case list has, per incremental solver kind, one history of 1400 create-and-remove bursts (67 200 argument ids on one solver object) followed by repeated certificate queries.",
        note="trusted: oracle.rs, the set model; <=7 live arguments; single-argument supported query kinds only"),
    "C09": dict(
        cat="exploration", ref="4 C09",
        technique="model-based stateful property testing with injected redundant/invalid updates",
        text="C08 histories with ~15% redundant or invalid updates at any position; redundant must be Ok and without effect, invalid must be rejected by the update call itself, all later answers must match the model that ignored them. Label type with coarse Hash, chosen-model backend, label groups and id inflation as in C08.",
        note="trusted: oracle.rs, the set model; fault kinds are those the property lists"),
    "C15": dict(
        cat="exploration", ref="4 C15",
        technique="model-based property testing of operation sequences; differential between three backends; brute-force SAT oracle",
        text="Generated add_clause/reserve/solve/solve_under_assumptions sequences (assumptions also on unseen and only-reserved variables, empty clause, structured prefixes) on CadicalSolver, ExternalSatSolver(fake_sat with strict DIMACS validation) and ExternalSatSolver(kissat) when installed; every verdict and model checked against brute force over the accumulated clauses and that call's assumptions. Variables are mapped with strides up to 128 (variable numbers ~1800), clauses of up to 9 literals, sequences up to 144/360 operations, a bulk operation producing DIMACS texts of several MiB.",
        note="trusted: brute force over <=2^14 assignments, fake_sat's validator; kissat optional (absence lowers coverage only)"),
    "C16": dict(
        cat="exploration", ref="4 C16",
        technique="property-based testing through a harness-owned external solver process (strict DIMACS validator, generated reply volume / I/O order / reply grammar) with a reference reply parser",
        text="Argumentation queries through ExternalSatSolver(fake_sat): every DIMACS text validated strictly inside the child; reply volume 20 B-1 MiB via comment padding, v-line widths, read-first/write-first/interleaved I/O, CRLF; models above 64 KiB via 8k-30k argument chains; generated well- and ill-formed replies replayed verbatim and compared with an independent reply parser (Sat(model)/Unsat/Invalid/Unspecified). 20 s per-call watchdog consulting the child's progress log: a blocked write of >64 KiB is a violation, any other expiry is inconclusive. The solver also prints 0-260 KiB of diagnostics on stderr before reading, before or after its reply. NearPipe cases: instances within 4 KB of the 64 KiB pipe capacity under 0-700 assumptions with up to 200 KB of early solver output; nine malformed-token shapes and tokens after the terminating 0 in the reply grammar.",
        note="trusted: fake_sat validator, reference reply parser; kernel scheduling not enumerated (the harness owns the child's side of the interleaving only)"),
    "C17": dict(
        cat="fault_enumeration", ref="4 C17",
        technique="fault injection enumerated over every SAT-call position of generated queries and dynamic histories (library wrapper, external process, command line)",
        text="For each generated problem / dynamic history the clean run is validated against the reference semantics and its k SAT calls counted; the query is then re-run for every position 1..k with the backend failing there: Unknown through a SatSolver wrapper, and {silent exit, non-zero exit, status without model, truncated model/status, stray line, s UNKNOWN, abort} through the harness-owned external solver, via ExternalSatSolver and via `crustabri solve --external-sat-solver`. Any returned status/extension/certificate, exit status 0 or answer line on stdout is a violation. All positions are enumerated per generated case; the cases themselves are sampled. Garbled lines come as ASCII, binary, a reply cut inside a multi-byte character, and Latin-1; a solver that cannot be started at all is one more kind. Unknown is also injected at every call position of list queries (1-3 arguments over several components) on every static solver type.",
        note="trusted: wrappers, fake_sat; positions exhaustive per case, cases generated (<=8 arguments, histories <=40/80 steps)"),
    "C10": dict(
        cat="translation_validation", ref="4 C10",
        technique="translation validation of every generated CNF: exhaustive assumption probing of all argument subsets against brute-force families, driven by generated and exhaustively enumerated frameworks",
        text="For each generated or enumerated framework with compact ids and each of the 7 encoders (plain and with range), the recorded clause list is validated exactly: for every subset S of the arguments, CNF+S is satisfiable iff S is in the intended family (conflict-free/admissible/complete/stable by brute force); assignment_to_extension returns S; range variables sound and complete; literal layout injective, positive, disjoint from range variables, within n_vars. Exact per program for <=10 arguments; programs are sampled (plus all digraphs on <=3/4 arguments). One case in 40 is a framework of 11-48 arguments probed on the CNF's own model, its neighbours and generated subsets with polynomial membership tests; in 40% of the cases the encoder object is reused after another framework. Large cases (11-320 arguments, incl. frameworks whose attacks are patterns over residues modulo 32/64 lifted to several floors, optionally after a warm-up of the same encoder object on a dense clique) are checked by an exact SAT search for a model of the CNF outside the intended family, re-confirmed polynomially.",
        note="trusted: oracle.rs families, CadicalSolver as probe (checked by C15); exhaustive probing on frameworks <=10 arguments; 11-320 arguments and 8 (quick) / 62 (thorough) frameworks above 2^16 arguments (a motif around multiples of 2^16, the rest isolated) are judged by an exact SAT search for a model outside the family plus probe sets"),
    "C12": dict(
        cat="exploration", ref="4 C12",
        technique="model-based stateful property testing (update histories vs a set model) + exhaustive enumeration of short histories",
        text="Generated histories of up to 200/600 operations over 4-8 labels (usize and String) with arbitrary operands, full observable-state comparison with a set model after every step, Result vs precondition, id uniqueness/stability/no reuse; plus every 4-step (quick) / 5-step (thorough) history over two labels. 20% of the histories run over 20-120 labels with hub bias (long adjacency lists, ids in the hundreds). A quarter of the histories use a label type whose Hash is coarser than its Eq (colliding labels). The fixed case list has one framework object living through 44 000 rounds of churn (2^16 removed attacks); some histories start with hubs of 30-119 attackers or a thousand stale adjacency entries.",
        note="trusted: the set model; label types: usize, String, a type with a coarse Hash, and a type whose Eq ignores part of the value (the stored representative must stay the first one inserted)"),
    "C14": dict(
        cat="exploration", ref="4 C14",
        technique="round-trip property testing with an independent tokenizer and byte-exact expected output",
        text="Frameworks produced by generated update histories over identifier labels are written by AspartixWriter, checked byte-wise against the set model by an independent tokenizer, and read back by AspartixReader (same labels in order, same attacks); generated ordered extensions (incl. empty) through both response writers must produce exactly the specified bytes; statuses exactly YES/NO lines. One case in 4000 writes extensions of up to 30000 (thorough 120000) labels and frameworks of that size. Sinks include one that accepts only 1-65535 bytes per write call; large cases carry identifiers of 2^16 bytes one time in four.",
        note="trusted: the tokenizer (20 lines) and the set model; labels are valid Aspartix identifiers"),
    "C18": dict(
        cat="exploration", ref="4 C18",
        technique="property-based testing with a counting/recording SAT wrapper whose cap is the stated bound (liveness reduced to a safety bound)",
        text="Generated problems on frameworks of <=9/11 arguments (70% connected) run with a SAT factory that aborts at bound+1 calls, the bound being computed per component from brute-force counts exactly as the property states; recorded models on one instance must be pairwise distinct (PR) / at most twice (ID) when projected on the argument variables; DS queries of generated dynamic-preferred histories bounded by |CO|+|PR|+1. Scripts of queries on ONE solver object get a bound per query. A preferred search on a connected framework may make at most |candidates|-1 satisfiable calls per solver instance. One case in three runs under a backend returning chosen models (the bounds are stated in candidate sets). List queries on the complete and stable solvers: at most two calls per SAT solver instance.",
        note="trusted: oracle.rs counts; termination of individual CaDiCaL calls assumed"),
    "C19": dict(
        cat="exploration", ref="4 C19",
        technique="property-based testing + exhaustive small scope against brute-force complete extensions",
        text="Generated frameworks (<=10/13 arguments, compact ids incl. duplicate attack lines) and all digraphs on <=3/4 arguments: classes of the reduction partition the arguments, the two mappings are inverse at class level, every class is inside or outside each complete extension, grounded and defeated sets each within one class, no panic. One case in 300 is a union of many small components (20-200 arguments) judged exactly by per-component signatures. The fixed case list contains one grounded-decided framework of 2^20+12 arguments; fans with a line repeated 2^16+ times are generated. 4000 frameworks of 30-300 arguments per quick run (sparse random, long even cycles with tails, layered) have their merges decided pair by pair by SAT on an independent encoding of the complete semantics.",
        note="trusted: oracle.rs complete extensions"),
    "C05": dict(
        cat="exploration", ref="4 C05",
        technique="property-based testing of the two binaries built from /repo's working tree: generated instance files and argv, answer-grammar parser + brute-force reference; generated bad invocations",
        text="~3200 (quick) / 60000 (thorough) process invocations: generated files in both formats x 21 problems in random letter case x argument x reader/encoding/certificate/logging-level/external-solver options for `crustabri solve` and -f/-p/-a for `crustabri_iccma23`; stdout minus logger lines must be exactly the answer grammar and the answer right by the reference; 14 kinds of bad invocation must exit non-zero without an answer line; the problems listing must be exactly the 21 problems. Instances are padded with up to 5200 isolated arguments, every path and external-solver option value contains whitespace, identifiers of 200-700 characters occur. Instances also come through named pipes, with a Latin-1 comment line, with options spelt -a3 / -a=3, with the solver named by its bare name from a working directory containing a same-named entry.",
        note="trusted: oracle.rs, the answer-grammar parser, refparse.rs for ill-formed files; <=7 arguments"),
    "C06": dict(
        cat="exploration", ref="4 C06",
        technique="stateful property-based testing: generated query scripts on one solver object per configuration, each answer against the reference (differential across encodings/backends by transitivity)",
        text="Generated scripts of 3-12 (thorough: up to 30) SE/DC/DS steps with repetitions and certificate flags put to ONE solver object per (solver type, selectable encoder, backend in embedded / ExternalSatSolver(fake_sat) / ExternalSatSolver(kissat)); every answer equals the brute-force answer; a snapshot of the framework before equals the one after. One case in 250 compares the embedded and an external backend on a framework of 40-200 arguments. A command-line matrix puts one problem to `crustabri solve` under every --encoding value x {embedded, fake_sat, kissat}. A fourth library backend returns chosen (non-default) models.",
        note="trusted: oracle.rs; kissat optional; <=8 arguments"),
    "C13": dict(
        cat="exploration", ref="4 C13",
        technique="grammar-based + mutation-based generation of byte strings, differential against tri-state reference parsers; libFuzzer target with the same oracle in the thorough tier",
        text="Millions of byte strings per run for both readers: grammar-based well-formed files with all format-defined decorations, targeted corruptions of each listed ill-formedness class, byte-level mutations, token soup, raw bytes (invalid UTF-8, NUL). No panic; Accept => exactly the declared labels in order and attack set; Reject => Err; Unspecified => Err or the natural reading; read_arg_from_str in and out of range. Line-lengthening mutations reach 2^16 units one time in 1009; one file in 3000 is a large ICCMA'23 file (up to 100000 arguments). Invalid UTF-8: the reader may refuse, or must return the framework of the text with the offending bytes replaced. One streamed well-formed input above 2^32 bytes per format (Aspartix: thorough only) and one ICCMA input with two comment lines above 2^27 bytes; indices at the bounds of the machine integers; reader objects reused after failed reads.",
        note="trusted: refparse.rs and its list of unspecified inputs (DESIGN.md 3.5); declared sizes >10^5 excluded and counted"),
    "C11": dict(
        cat="exploration", ref="4 C11",
        technique="metamorphic property-based testing on frameworks of 20-300 arguments (renaming, reordering, duplication, format switch, disjoint union, component removal) plus cross-semantics consistency relations",
        text="Frameworks far beyond the brute-force oracle, assembled from small blocks into components of very different sizes; 2-4 random transformations composed; all 14 DC/DS statuses of 4-8 queried arguments must be unchanged (ST: by the stated rule on stable extensions of the added/removed part), returned extensions must satisfy polynomial necessary conditions, and the answers of the 21 problems on each framework must satisfy the listed consistency relations (and their textbook consequences). Fan gadgets give in-degrees of several hundred, 20% of the frameworks are padded to a multiple of 64 arguments, one attack line may be repeated 200-700 times. One case in three runs under a SAT backend returning chosen models.",
        note="relations are necessary conditions only; trusted: the polynomial checkers, oracle.rs on the small added/removed parts"),
}

NOT_YET = "check not built yet in this session (work in progress; see DESIGN.md section 4 for the planned check)"

def main():
    checks = []
    for pid in ALL:
        if pid not in CHECKS:
            continue
        c = CHECKS[pid]
        checks.append({
            "property_id": pid,
            "quick_cmd": "./check %s quick" % pid,
            "thorough_cmd": "./check %s thorough" % pid,
            "evidence_file": "/verif/evidence/%s.json" % pid,
            "replay_cmd_template": "./check %s --replay {path}" % pid,
            "engine": "vcheck",
            "level_claimed": {"category": c["cat"], "text": c["text"], "design_ref": "DESIGN.md section " + c["ref"]},
            "level_note": c["note"],
            "technique": c["technique"],
        })
    manifest = {
        "version": 1,
        "setup_cmd": "cd /verif/harness && CARGO_NET_OFFLINE=true cargo build --release --offline && CARGO_NET_OFFLINE=true cargo build --release --offline --bins --manifest-path /repo/Cargo.toml --target-dir /verif/target/repo",
        "hooks": {
            "guard": "--cfg crustabri_verif",
            "enable": "none needed: every check goes through public items of the crustabri library and its two binaries; the harness crate has a path dependency on /repo and rebuilds it on every check",
            "baseline_off_cmd": "cd /repo && cargo test --workspace --no-fail-fast --offline",
            "source_commits": [],
            "add_only": True,
        },
        "engines": [
            {"name": "vcheck", "path": "/verif/harness", "serves_properties": sorted(CHECKS.keys()),
             "kind_free_text": "Rust harness crate (path dependency on /repo): proptest TestRunner on 16 worker threads with fixed seeds derived from VERIF_SEED, exhaustive small-scope enumeration, brute-force reference semantics, SAT wrappers, shrinking to JSON replay files"},
        ],
        "checks": checks,
        "not_applicable": [{"property_id": p, "reason": NOT_YET} for p in ALL if p not in CHECKS],
        "notes": "Exit codes: 0 held, 1 VIOLATION line, 2 inconclusive (build failure / watchdog). Known findings: /verif/known_findings.txt.",
    }
    with open(os.path.join(HERE, "MANIFEST.json"), "w") as f:
        json.dump(manifest, f, indent=1)
        f.write("\n")

if __name__ == "__main__":
    main()
