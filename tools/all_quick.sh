#!/bin/bash
# usage: [CHECKS="C01 C05"] tools/all_quick.sh <tier> <seed> [<seed> ...] : runs every (or the named) check with each seed, one line per run
tier=$1; shift
cd "$(dirname "$0")/.."
for seed in "$@"; do
  for c in ${CHECKS:-C01 C02 C03 C04 C05 C06 C07 C08 C09 C10 C11 C12 C13 C14 C15 C16 C17 C18 C19}; do
    s=$(date +%s)
    out=$(VERIF_SEED=$seed ./check $c $tier 2>&1); code=$?
    e=$(date +%s)
    echo "seed=$seed $c exit=$code time=$((e-s))s :: $(echo "$out" | grep -aE '^(OK|VIOLATION|INCONCLUSIVE|failure|note)' | tr '\n' ' ' | cut -c1-300)"
  done
done
