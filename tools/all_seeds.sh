#!/bin/bash
# usage: [SEEDS="seeded/X/ seeded/Y/"] tools/all_seeds.sh [tier]  : re-runs, on scratch copies, every seeded change against the checks its
# meta.json says catch it, and the negative control against the checks that must stay silent.
tier=${1:-quick}
cd /verif
for d in ${SEEDS:-seeded/*/}; do
  name=$(basename $d)
  [ -f $d/meta.json ] || continue
  if [[ $name == own-M5-* ]]; then
    checks=$(python3 -c "import json;m=json.load(open('$d/meta.json'));print(' '.join(sorted(set(c.split(':')[0] for c in m['not_caught_by'][0].replace(',',' ').split() if c.startswith('C')))))")
    expect=0
  else
    checks=$(python3 -c "import json;m=json.load(open('$d/meta.json'));import re;print(' '.join(sorted(set(re.match(r'C[0-9][0-9]',c).group(0) for c in m['caught_by'] if re.match(r'C[0-9][0-9]:'+'$tier',c)))))")
    expect=1
  fi
  out=$(tools/try_seed_isolated.sh $d/patch.diff $tier $checks 2>&1 | grep -aE "^== " | tr '\n' ' ')
  ok=1
  for c in $checks; do
    if ! echo "$out" | grep -q "== $c exit=$expect "; then ok=0; fi
  done
  echo "$( [ $ok = 1 ] && echo PASS || echo FAIL ) $name expect_exit=$expect :: $out"
done
