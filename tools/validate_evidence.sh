#!/bin/bash
# usage: tools/validate_evidence.sh : validates MANIFEST.json and every evidence/<id>.json against the schemas
cd "$(dirname "$0")/.."
python3-vt - <<'PY'
import json, jsonschema, glob, sys
ok = True
m = json.load(open('MANIFEST.json')); jsonschema.validate(m, json.load(open('/root/.vp/MANIFEST.schema.json')))
sch = json.load(open('/root/.vp/EVIDENCE.schema.json'))
for f in sorted(glob.glob('evidence/C??.json')):
    try:
        jsonschema.validate(json.load(open(f)), sch)
    except Exception as e:
        ok = False; print('INVALID', f, str(e)[:200])
print('manifest and', len(glob.glob('evidence/C??.json')), 'evidence files', 'valid' if ok else 'NOT valid')
sys.exit(0 if ok else 1)
PY
