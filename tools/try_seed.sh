#!/bin/bash
# usage: tools/try_seed.sh <patch.diff> <tier> <Cxx> [Cyy ...]
# Applies a seeded change to /repo, runs the named checks, and ALWAYS restores /repo afterwards.
set -u
PATCH="$(realpath "$1")"; TIER="$2"; shift 2
cd /repo || exit 2
if ! git diff --quiet; then echo "/repo has uncommitted changes; refusing"; exit 2; fi
if ! git apply --check "$PATCH" 2>/dev/null; then echo "patch does not apply: $PATCH"; exit 2; fi
git apply "$PATCH"
# evidence written while a seeded change is applied must never replace the evidence of the unchanged tree
EVBAK=$(mktemp -d /verif/target/evidence-backup.XXXXXX)
cp -a /verif/evidence/. "$EVBAK"/ 2>/dev/null
trap 'git -C /repo checkout -- . ; git -C /repo clean -fdq -- tests src 2>/dev/null; rm -rf /verif/evidence; mkdir -p /verif/evidence; cp -a "$EVBAK"/. /verif/evidence/; rm -rf "$EVBAK"' EXIT
cd /verif
for c in "$@"; do
  start=$(date +%s)
  out=$(./check "$c" "$TIER" 2>&1); code=$?
  end=$(date +%s)
  echo "== $c exit=$code time=$((end-start))s"
  echo "$out" | grep -aE "^(failure|VIOLATION|KNOWN-FINDING|INCONCLUSIVE|OK|note)" | cut -c1-400
done
