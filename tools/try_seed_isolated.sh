#!/bin/bash
# usage: tools/try_seed_isolated.sh <patch.diff> <tier> <Cxx> [Cyy ...]
# Like try_seed.sh but on scratch copies (a worktree of /repo and a copy of the harness pointing at it), so that
# /repo itself is not touched: usable while other runs are using /repo. Scratch lives under /tmp/seediso.
set -u
PATCH="$(realpath "$1")"; TIER="$2"; shift 2
ISO=${ISO_DIR:-/tmp/seediso}
mkdir -p $ISO
if [ ! -d $ISO/repo ]; then git -C /repo worktree add -q --detach $ISO/repo HEAD || exit 2; fi
git -C $ISO/repo checkout -q -- . ; git -C $ISO/repo clean -fdq -- src tests
git -C $ISO/repo checkout -q --detach "$(git -C /repo rev-parse HEAD)"
if ! git -C $ISO/repo apply --check "$PATCH" 2>/dev/null; then echo "patch does not apply: $PATCH"; exit 2; fi
git -C $ISO/repo apply "$PATCH"
mkdir -p $ISO/verif/harness $ISO/verif/fuzz
rsync -a --delete --exclude target /verif/harness/ $ISO/verif/harness/
rsync -a --delete --exclude target --exclude artifacts --exclude corpus /verif/fuzz/ $ISO/verif/fuzz/
sed -i "s#path = \"/repo\"#path = \"$ISO/repo\"#" $ISO/verif/harness/Cargo.toml $ISO/verif/fuzz/Cargo.toml
rsync -a --delete /verif/replays/regress/ $ISO/verif/replays/regress/ 2>/dev/null
cp /verif/known_findings.txt /verif/check $ISO/verif/
export VERIF_REPO=$ISO/repo
cd $ISO/verif
for c in "$@"; do
  start=$(date +%s)
  out=$(./check "$c" "$TIER" 2>&1); code=$?
  end=$(date +%s)
  echo "== $c exit=$code time=$((end-start))s"
  echo "$out" | grep -aE "^(failure|VIOLATION|KNOWN-FINDING|INCONCLUSIVE|OK|note)" | cut -c1-400
done
git -C $ISO/repo checkout -q -- . ; git -C $ISO/repo clean -fdq -- src tests
