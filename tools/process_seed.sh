#!/bin/bash
# usage: tools/process_seed.sh <Cxx worktree suffix> <seed-id> <tier> <checks...>
p=$1; id=$2; tier=$3; shift 3; WTP=${WTPREFIX:-wt-}
echo "######## $p -> $id"
/verif/tools/confirm_seed.sh /tmp/$WTP$p 2>&1 | grep -E "Running tests/seeded_demo|^test result|without change" | head -20
mkdir -p /verif/seeded/$id
git -C /tmp/$WTP$p diff -- src > /verif/seeded/$id/patch.diff
cp /tmp/$WTP$p/tests/seeded_demo.rs /tmp/$WTP$p/SEEDED.md /verif/seeded/$id/ 2>/dev/null
git -C /repo worktree remove --force /tmp/$WTP$p
${SEED_RUNNER:-/verif/tools/try_seed.sh} /verif/seeded/$id/patch.diff $tier "$@" 2>&1 | grep -aE "^==|^failure|^OK|INCONCLUSIVE|^note" | cut -c1-420
