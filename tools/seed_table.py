#!/usr/bin/env python3
"""Prints the markdown table of /verif/seeded from the meta.json files."""
import json, os, glob
rows=[]
for d in sorted(glob.glob('/verif/seeded/*/')):
    name=os.path.basename(d.rstrip('/'))
    try: m=json.load(open(d+'meta.json'))
    except Exception: continue
    rows.append((name,m))
def order(n):
    k=9
    for i,pre in enumerate(['S-','S2-','S3-','S4-','S5-','S6-','S7-','S8-']):
        if n.startswith(pre): k=i
    return (k,n)
print("| seeded change | breaks | needs in order to manifest | caught by | silent / missed |")
print("|---|---|---|---|---|")
for name,m in sorted(rows,key=lambda r:order(r[0])):
    caught='; '.join(m['caught_by']).replace('|','/')
    if m.get('note'):
        caught=(caught+' - ' if caught else '')+m['note'].replace('|','/')
    print("| %s | %s | %s | %s | %s |"%(name,m['breaks_property'],m['needs_to_manifest'].replace('|','/'),caught,'; '.join(m['not_caught_by']).replace('|','/')))
