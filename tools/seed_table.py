#!/usr/bin/env python3
"""Prints the markdown table of /verif/seeded from the meta.json files."""
import json, os, glob
rows=[]
for d in sorted(glob.glob('/verif/seeded/*/')):
    name=os.path.basename(d.rstrip('/'))
    try: m=json.load(open(d+'meta.json'))
    except Exception: continue
    rows.append((name,m))
def order(n):
    k=0 if n.startswith('S-') else 1 if n.startswith('S2-') else 2 if n.startswith('S3-') else 3
    return (k,n)
print("| seeded change | breaks | needs in order to manifest | caught by | silent / missed |")
print("|---|---|---|---|---|")
for name,m in sorted(rows,key=lambda r:order(r[0])):
    print("| %s | %s | %s | %s | %s |"%(name,m['breaks_property'],m['needs_to_manifest'].replace('|','/'),'; '.join(m['caught_by']).replace('|','/'),'; '.join(m['not_caught_by']).replace('|','/')))
