#!/usr/bin/env python3
"""usage: seed_meta.py <seed-dir-name> <property> <origin> <needs> <caught_by (comma list of 'Cxx:tier')> [missed_by]"""
import json, sys, os
name, prop, origin, needs, caught = sys.argv[1:6]
missed = sys.argv[6] if len(sys.argv) > 6 else ""
d = os.path.join('/verif/seeded', name)
meta = {
 "breaks_property": prop,
 "origin": origin,
 "needs_to_manifest": needs,
 "confirmed": {
   "how": "tools/confirm_seed.sh in the author's scratch worktree (removed afterwards): `cargo test --workspace --offline --no-fail-fast` with the change applied -> every pre-existing test target passes (314+15+15+55+1+1 tests, 68 doc tests), only tests/seeded_demo.rs fails; `git apply -R` of the source part of the change, then `cargo test --offline --test seeded_demo` -> the demonstration passes on the original source",
   "demo": "seeded_demo.rs" if os.path.exists(os.path.join(d,'seeded_demo.rs')) else None,
 },
 "ran_against_checks": "tools/try_seed.sh seeded/%s/patch.diff <tier> <checks> (git apply in /repo, ./check, git checkout -- .)" % name,
 "caught_by": [c for c in caught.split(',') if c],
 "not_caught_by": [c for c in missed.split(',') if c],
}
json.dump(meta, open(os.path.join(d,'meta.json'),'w'), indent=1)
print("wrote", d)
