#!/bin/bash
# usage: tools/confirm_seed.sh <worktree> : confirms a seeded change independently
#  1. with the change: whole suite passes except tests/seeded_demo.rs, which fails
#  2. without the change: the demo passes
set -u
WT="$1"; cd "$WT" || exit 2
git diff -- src > /tmp/confirm.patch   # (git stash is shared between worktrees: not used)
[ -s /tmp/confirm.patch ] || { echo "no source change in $WT"; exit 2; }
echo "--- with change: full suite"
cargo test --workspace --offline --no-fail-fast 2>&1 | grep -E "^test result|Running|FAILED|failed|error(\[|:)" | grep -vE "^\s+Running unittests" | head -40
echo "--- without change: demo only"
git apply -R /tmp/confirm.patch
cargo test --offline --test seeded_demo 2>&1 | grep -E "^test result|FAILED|failed|error(\[|:)" | head
git apply /tmp/confirm.patch
git diff --stat -- src | tail -1
