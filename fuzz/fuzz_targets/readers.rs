#![no_main]
//! C13 byte-level target: first byte selects the reader, the rest is the file. The oracle is the
//! same tri-state reference-parser differential as in the property-based check.
use libfuzzer_sys::fuzz_target;

fuzz_target!(|data: &[u8]| {
    if data.is_empty() {
        return;
    }
    let fmt = data[0] & 1;
    let bytes = &data[1..];
    if let Err(f) = vharness::checks::readers::check_bytes(fmt, bytes) {
        vharness::fuzzsupport::report("C13", &f, serde_json::json!({"fmt": fmt, "bytes": bytes}));
    }
});
