#![no_main]
//! C15 structure-aware target (embedded backend only: no process spawning inside libFuzzer).
use arbitrary::Unstructured;
use libfuzzer_sys::fuzz_target;
use vharness::checks::satobj::{SatCase, SatOp};

fuzz_target!(|data: &[u8]| {
    let mut u = Unstructured::new(data);
    let mut ops = vec![];
    let lit = |u: &mut Unstructured, maxv: i8| -> i8 {
        let v = u.int_in_range(1..=maxv).unwrap_or(1);
        if u.arbitrary::<bool>().unwrap_or(true) {
            v
        } else {
            -v
        }
    };
    while !u.is_empty() && ops.len() < 80 {
        match u.int_in_range(0u8..=9).unwrap_or(0) {
            0..=5 => {
                let len = u.int_in_range(0usize..=9).unwrap_or(1);
                ops.push(SatOp::Add((0..len).map(|_| lit(&mut u, 12)).collect()));
            }
            6 => ops.push(SatOp::Reserve(u.int_in_range(0u8..=16).unwrap_or(0))),
            _ => {
                let len = u.int_in_range(0usize..=4).unwrap_or(0);
                ops.push(SatOp::Solve((0..len).map(|_| lit(&mut u, 14)).collect()));
            }
        }
    }
    ops.push(SatOp::Solve(vec![]));
    let stride = [1u8, 64, 65, 3][(data.len() % 4) as usize];
    let case = SatCase { ops, stride };
    if let Err(f) = vharness::checks::satobj::run_embedded_only(&case) {
        vharness::fuzzsupport::report("C15", &f, serde_json::to_value(&case).unwrap());
    }
});
