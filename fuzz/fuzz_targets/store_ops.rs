#![no_main]
//! C12 structure-aware target: bytes are decoded into a store history.
use arbitrary::Unstructured;
use libfuzzer_sys::fuzz_target;
use vharness::checks::store::{StoreCase, StoreOp};
use vharness::engine::{Prop, Rec};

fuzz_target!(|data: &[u8]| {
    let mut u = Unstructured::new(data);
    let universe = 2 + u.int_in_range(0u8..=6).unwrap_or(0);
    let kind = u.int_in_range(0u8..=2).unwrap_or(0);
    let (string_labels, coarse) = (kind == 1, kind == 2);
    let n_init = u.int_in_range(0usize..=6).unwrap_or(0);
    let mut initial = vec![];
    for _ in 0..n_init {
        initial.push(u.int_in_range(0..=universe - 1).unwrap_or(0));
    }
    let mut ops = vec![];
    while !u.is_empty() && ops.len() < 400 {
        let k = u.int_in_range(0u8..=8).unwrap_or(0);
        let a = u.int_in_range(0..=universe - 1).unwrap_or(0);
        let b = u.int_in_range(0..=universe - 1).unwrap_or(0);
        ops.push(match k {
            0 | 1 => StoreOp::NewArg(a),
            2 => StoreOp::RemArg(a),
            3 | 4 | 5 | 6 => StoreOp::NewAtt(a, b),
            _ => StoreOp::RemAtt(a, b),
        });
    }
    let case = StoreCase { universe, string_labels, coarse, hub_prefix: 0, churn: 0, initial, ops };
    let mut rec = Rec::default();
    if let Err(f) = vharness::checks::store::Store.run(&case, &mut rec) {
        vharness::fuzzsupport::report("C12", &f, serde_json::to_value(&case).unwrap());
    }
});
