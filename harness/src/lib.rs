pub mod build;
pub mod checks;
pub mod engine;
pub mod gen;
pub mod oracle;
pub mod queries;
pub mod satwrap;
pub mod util;
