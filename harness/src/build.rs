//! Turns abstract cases into crustabri objects.

use crate::gen::{AbsGraph, GraphCase, Pres};
use crustabri::aa::{AAFramework, ArgumentSet};
use crustabri::io::{AspartixReader, Iccma23Reader, InstanceReader};

pub enum Built {
    U(AAFramework<usize>, Vec<usize>),
    S(AAFramework<String>, Vec<String>),
    /// labels of a type whose `Hash` is much coarser than its `Eq` (all `LabelType` asks for is
    /// `Clone + Debug + Display + Eq + Hash`): distinct labels collide in every hash table
    C(AAFramework<CoarseLabel>, Vec<CoarseLabel>),
}

#[derive(Clone, Debug, PartialEq, Eq, PartialOrd, Ord)]
pub struct CoarseLabel {
    pub source: u8,
    pub name: usize,
}
impl std::hash::Hash for CoarseLabel {
    fn hash<H: std::hash::Hasher>(&self, state: &mut H) {
        state.write_u8((self.name % 3) as u8);
    }
}
impl std::fmt::Display for CoarseLabel {
    fn fmt(&self, f: &mut std::fmt::Formatter<'_>) -> std::fmt::Result {
        write!(f, "s{}n{}", self.source, self.name)
    }
}

pub fn order_from_keys(n: usize, keys: &[u8]) -> Vec<usize> {
    let mut idx: Vec<usize> = (0..n).collect();
    idx.sort_by_key(|&i| (keys.get(i).copied().unwrap_or(0), i));
    idx
}

pub fn apx_label(style: u8, i: usize) -> String {
    match style % 5 {
        // identifiers of 200-700 characters (style 4): longer than any fixed-size buffer or message prefix
        4 => format!("long_{}_{}", "y".repeat(200 + 37 * (i % 14)), i),
        0 => format!("a{}", i),
        1 => format!("_x{}", i),
        2 => format!("Arg{}_", i),
        _ => {
            const NAMES: [&str; 8] = ["a", "b", "c", "arg", "att", "A9_", "_", "z_z"];
            if i < NAMES.len() {
                NAMES[i].to_string()
            } else {
                format!("{}{}", NAMES[i % NAMES.len()], i)
            }
        }
    }
}

pub fn iccma_text(g: &AbsGraph) -> String {
    let mut s = format!("p af {}\n", g.n);
    for (a, b) in &g.att {
        s.push_str(&format!("{} {}\n", *a as usize + 1, *b as usize + 1));
    }
    s
}

pub fn apx_text(g: &AbsGraph, labels: &[String], order: &[usize]) -> String {
    let mut s = String::new();
    for &i in order {
        s.push_str(&format!("arg({}).\n", labels[i]));
    }
    for (a, b) in &g.att {
        s.push_str(&format!("att({},{}).\n", labels[*a as usize], labels[*b as usize]));
    }
    s
}

pub fn build(case: &GraphCase) -> Built {
    let g = &case.g;
    let n = g.n;
    match &case.pres {
        Pres::Direct { offset: 252, order_keys } => {
            let labels: Vec<CoarseLabel> = (0..n).map(|i| CoarseLabel { source: (i % 4) as u8, name: i / 4 }).collect();
            let order = order_from_keys(n, order_keys);
            let decl: Vec<CoarseLabel> = order.iter().map(|&i| labels[i].clone()).collect();
            let mut af = AAFramework::new_with_argument_set(ArgumentSet::new_with_labels(&decl));
            for (a, b) in &g.att {
                af.new_attack(&labels[*a as usize], &labels[*b as usize]).expect("valid attack");
            }
            Built::C(af, labels)
        }
        Pres::Direct { offset, order_keys } => {
            // offsets 253-255 stand for label ranges that straddle isize::MAX, 2^32 and end at usize::MAX:
            // labels are opaque to the library, whatever their magnitude
            let base: usize = match *offset {
                255 => usize::MAX - n.max(1) + 1,
                254 => (1usize << 32) - 1 - n / 2,
                253 => isize::MAX as usize - n / 2,
                o => o as usize,
            };
            let labels: Vec<usize> = (0..n).map(|i| i + base).collect();
            let order = order_from_keys(n, order_keys);
            let decl: Vec<usize> = order.iter().map(|&i| labels[i]).collect();
            let mut af = AAFramework::new_with_argument_set(ArgumentSet::new_with_labels(&decl));
            for (a, b) in &g.att {
                af.new_attack(&labels[*a as usize], &labels[*b as usize]).expect("valid attack");
            }
            Built::U(af, labels)
        }
        Pres::IccmaRepeated { line, times } => {
            let mut txt = iccma_text(g);
            if !g.att.is_empty() {
                let (a, b) = g.att[crate::gen::idx(*line, g.att.len())];
                let l = format!("{} {}\n", a as usize + 1, b as usize + 1);
                txt.reserve(l.len() * *times as usize);
                for _ in 1..*times {
                    txt.push_str(&l);
                }
            }
            let af = Iccma23Reader::default().read(&mut txt.as_bytes()).expect("well-formed ICCMA text");
            Built::U(af, (1..=n).collect())
        }
        Pres::Iccma => {
            let txt = iccma_text(g);
            let af = Iccma23Reader::default().read(&mut txt.as_bytes()).expect("well-formed ICCMA text");
            Built::U(af, (1..=n).collect())
        }
        Pres::Apx { style, order_keys } => {
            let labels: Vec<String> = (0..n).map(|i| apx_label(*style, i)).collect();
            let order = order_from_keys(n, order_keys);
            let txt = apx_text(g, &labels, &order);
            let af = AspartixReader::default().read(&mut txt.as_bytes()).expect("well-formed Aspartix text");
            Built::S(af, labels)
        }
        Pres::Sparse { order_keys, extra_at, readd } => {
            let labels: Vec<usize> = (0..n).collect();
            let order = order_from_keys(n, order_keys);
            let mut af: AAFramework<usize> = AAFramework::new_with_argument_set(ArgumentSet::new_with_labels(&[]));
            let mut doomed = vec![];
            for (pos, &i) in order.iter().enumerate() {
                for (k, e) in extra_at.iter().enumerate() {
                    if (*e as usize) % (n + 1) == pos {
                        let l = 1000 + k;
                        af.new_argument(l);
                        doomed.push(l);
                    }
                }
                af.new_argument(labels[i]);
            }
            for (k, e) in extra_at.iter().enumerate() {
                if (*e as usize) % (n + 1) == n {
                    let l = 1000 + k;
                    af.new_argument(l);
                    doomed.push(l);
                }
            }
            // the doomed arguments get attacks (self, to and from real ones) before being removed
            for (k, d) in doomed.iter().enumerate() {
                af.new_attack(d, d).unwrap();
                if n > 0 {
                    af.new_attack(d, &labels[k % n]).unwrap();
                    af.new_attack(&labels[(k + 1) % n], d).unwrap();
                }
            }
            for d in &doomed {
                af.remove_argument(d).unwrap();
            }
            // remove and re-add some real labels (new ids)
            for &i in order.iter().take(*readd as usize) {
                af.remove_argument(&labels[i]).unwrap();
                af.new_argument(labels[i]);
            }
            // an attack that is added then removed again
            let attset: std::collections::BTreeSet<(u8, u8)> = g.att.iter().copied().collect();
            let mut spare = None;
            'o: for a in 0..n {
                for b in 0..n {
                    if !attset.contains(&(a as u8, b as u8)) {
                        spare = Some((a, b));
                        break 'o;
                    }
                }
            }
            if let Some((a, b)) = spare {
                af.new_attack(&labels[a], &labels[b]).unwrap();
            }
            for (a, b) in &g.att {
                af.new_attack(&labels[*a as usize], &labels[*b as usize]).expect("valid attack");
            }
            if let Some((a, b)) = spare {
                af.remove_attack(&labels[a], &labels[b]).unwrap();
            }
            Built::U(af, labels)
        }
    }
}

/// Dispatches a generic function over the two label types.
#[macro_export]
macro_rules! with_built {
    ($built:expr, |$af:ident, $labels:ident| $body:expr) => {
        match $built {
            $crate::build::Built::U($af, $labels) => {
                let $af = &$af;
                let $labels = &$labels[..];
                $body
            }
            $crate::build::Built::S($af, $labels) => {
                let $af = &$af;
                let $labels = &$labels[..];
                $body
            }
            $crate::build::Built::C($af, $labels) => {
                let $af = &$af;
                let $labels = &$labels[..];
                $body
            }
        }
    };
}
