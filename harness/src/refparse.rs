//! Reference parsers for the two instance formats, written from the format descriptions.
//! Tri-state: Accept(graph) / Reject / Unspecified(maybe the natural reading).

#[derive(Clone, Debug, PartialEq, Eq)]
pub struct RefGraph {
    pub labels: Vec<String>,
    pub attacks: Vec<(String, String)>,
}

#[derive(Clone, Debug, PartialEq, Eq)]
pub enum RefOutcome {
    Accept(RefGraph),
    Reject(&'static str),
    /// The property is silent on this input. With `Some(g)`: if the reader accepts, it must return g.
    Unspecified(&'static str, Option<RefGraph>),
    /// Declared size beyond "fits in memory" for this harness.
    TooLarge,
}

pub const MAX_DECLARED: u64 = 100_000;

fn is_blank_st(s: &str) -> bool {
    s.chars().all(|c| c == ' ' || c == '\t')
}

fn odd_chars(l: &str) -> bool {
    !l.is_ascii() || l.bytes().any(|b| (b < 0x20 && b != b'\t') || b == 0x7f)
}

#[derive(PartialEq)]
enum Num {
    Plain(u64),
    /// parses as an integer under a lenient reading (sign, leading zeros), value given
    Lenient(i128),
    No,
}

fn num(tok: &str) -> Num {
    if !tok.is_empty() && tok.bytes().all(|b| b.is_ascii_digit()) {
        if tok.len() > 1 && tok.starts_with('0') {
            return match tok.parse::<i128>() {
                Ok(v) => Num::Lenient(v),
                Err(_) => Num::No,
            };
        }
        return match tok.parse::<u64>() {
            Ok(v) => Num::Plain(v),
            Err(_) => Num::Lenient(i128::MAX),
        };
    }
    let body = tok.strip_prefix('+').or_else(|| tok.strip_prefix('-')).unwrap_or("");
    if !body.is_empty() && body.bytes().all(|b| b.is_ascii_digit()) {
        return match tok.parse::<i128>() {
            Ok(v) => Num::Lenient(v),
            Err(_) => Num::Lenient(i128::MAX),
        };
    }
    Num::No
}

/// ICCMA'23 format: `p af N`, then `i j` lines, `#` comment lines (column 0), nothing after a blank line.
pub fn ref_iccma(data: &[u8]) -> RefOutcome {
    let lossy;
    let s = match std::str::from_utf8(data) {
        Ok(s) => s,
        Err(_) => {
            // Bytes that are not UTF-8: the reader may refuse the file for that alone. If it accepts it, it
            // must have read ALL of it: the natural reading is that of the text with the offending bytes replaced
            // (U+FFFD); a text that is ill-formed in one of the listed ways stays ill-formed.
            lossy = String::from_utf8_lossy(data).into_owned();
            return match ref_iccma(lossy.as_bytes()) {
                RefOutcome::Accept(g) => RefOutcome::Unspecified("invalid UTF-8", Some(g)),
                other => other,
            };
        }
    };
    let mut unspec: Option<&'static str> = None;
    let mut n: Option<u64> = None;
    let mut attacks: Vec<(u64, u64)> = vec![];
    let mut blank_seen = false;
    let pieces: Vec<&str> = s.split('\n').collect();
    let last = pieces.len() - 1;
    for (i, raw) in pieces.iter().enumerate() {
        // the piece after the final newline is not a line
        if i == last && raw.is_empty() {
            break;
        }
        let l = raw.strip_suffix('\r').unwrap_or(raw);
        if raw.starts_with('#') {
            continue;
        }
        if raw.is_empty() {
            blank_seen = true;
            continue;
        }
        if is_blank_st(l) {
            // whitespace-only line (incl. a lone CR): the format does not say
            return RefOutcome::Unspecified("whitespace-only line", None);
        }
        if odd_chars(l) {
            return RefOutcome::Unspecified("control or non-ASCII character", None);
        }
        fn rej_with(unspec: Option<&'static str>, why: &'static str) -> RefOutcome {
            if let Some(u) = unspec {
                RefOutcome::Unspecified(u, None)
            } else {
                RefOutcome::Reject(why)
            }
        }
        macro_rules! rej {
            ($why:expr) => {
                rej_with(unspec, $why)
            };
        }
        if blank_seen {
            return rej!("content after a blank line");
        }
        let toks: Vec<&str> = l.split(|c| c == ' ' || c == '\t').filter(|t| !t.is_empty()).collect();
        if toks.iter().any(|t| t.starts_with('#')) {
            return RefOutcome::Unspecified("# not in column 0", None);
        }
        if n.is_none() {
            if toks.len() != 3 || toks[0] != "p" || toks[1] != "af" {
                return rej!("bad or missing header");
            }
            match num(toks[2]) {
                Num::Plain(v) => {
                    if v > MAX_DECLARED {
                        return RefOutcome::TooLarge;
                    }
                    n = Some(v)
                }
                Num::Lenient(v) => {
                    if v > MAX_DECLARED as i128 {
                        return RefOutcome::TooLarge;
                    }
                    return RefOutcome::Unspecified("sign or leading zeros in header", None);
                }
                Num::No => return rej!("header count is not a number"),
            }
            continue;
        }
        if toks.len() != 2 {
            return rej!("attack line arity");
        }
        let mut pair = [0u64; 2];
        for (k, t) in toks.iter().enumerate() {
            match num(t) {
                Num::Plain(v) => {
                    if v < 1 || v > n.unwrap() {
                        return rej!("index out of range");
                    }
                    pair[k] = v;
                }
                Num::Lenient(v) => {
                    if v >= 1 && v <= n.unwrap() as i128 {
                        unspec = Some("sign or leading zeros in index");
                        pair[k] = v as u64;
                    } else {
                        // out of range under every reading
                        return rej!("index out of range");
                    }
                }
                Num::No => return rej!("index is not a number"),
            }
        }
        attacks.push((pair[0], pair[1]));
    }
    let n = match n {
        Some(n) => n,
        None => return RefOutcome::Reject("missing header"),
    };
    let g = RefGraph {
        labels: (1..=n).map(|i| i.to_string()).collect(),
        attacks: attacks.iter().map(|(a, b)| (a.to_string(), b.to_string())).collect(),
    };
    match unspec {
        Some(u) => RefOutcome::Unspecified(u, Some(g)),
        None => RefOutcome::Accept(g),
    }
}

fn is_id(s: &str) -> bool {
    let b = s.as_bytes();
    !b.is_empty() && (b[0] == b'_' || b[0].is_ascii_alphabetic()) && b.iter().all(|c| *c == b'_' || c.is_ascii_alphanumeric())
}

fn trim_st(s: &str) -> &str {
    s.trim_matches(|c| c == ' ' || c == '\t')
}

/// (is_arg, identifiers, terminator_is_not_a_dot)
fn apx_line(l: &str) -> Option<(bool, Vec<String>, bool)> {
    let t = l.trim_start_matches(|c| c == ' ' || c == '\t');
    let (is_arg, rest) = if let Some(r) = t.strip_prefix("arg(") {
        (true, r)
    } else if let Some(r) = t.strip_prefix("att(") {
        (false, r)
    } else {
        return None;
    };
    let close = rest.find(')')?;
    let inner = &rest[..close];
    let after = &rest[close + 1..];
    let mut ch = after.chars();
    let term = ch.next()?;
    if !ch.as_str().chars().all(|c| c == ' ' || c == '\t') {
        return None;
    }
    let parts: Vec<&str> = inner.split(',').collect();
    if (is_arg && parts.len() != 1) || (!is_arg && parts.len() != 2) {
        return None;
    }
    let ids: Vec<String> = parts.iter().map(|p| trim_st(p).to_string()).collect();
    if !ids.iter().all(|i| is_id(i)) {
        return None;
    }
    Some((is_arg, ids, term != '.'))
}

/// Aspartix format: `arg(x).` lines then `att(x,y).` lines; blank lines anywhere.
pub fn ref_apx(data: &[u8]) -> RefOutcome {
    let lossy;
    let s = match std::str::from_utf8(data) {
        Ok(s) => s,
        Err(_) => {
            // Bytes that are not UTF-8: the reader may refuse the file for that alone. If it accepts it, it
            // must have read ALL of it: the natural reading is that of the text with the offending bytes replaced
            // (U+FFFD); a text that is ill-formed in one of the listed ways stays ill-formed.
            lossy = String::from_utf8_lossy(data).into_owned();
            return match ref_apx(lossy.as_bytes()) {
                RefOutcome::Accept(g) => RefOutcome::Unspecified("invalid UTF-8", Some(g)),
                other => other,
            };
        }
    };
    let mut unspec: Option<&'static str> = None;
    let mut args: Vec<String> = vec![];
    let mut atts: Vec<(String, String)> = vec![];
    let mut seen_att = false;
    let pieces: Vec<&str> = s.split('\n').collect();
    let last = pieces.len() - 1;
    for (i, raw) in pieces.iter().enumerate() {
        let l = if i < last { raw.strip_suffix('\r').unwrap_or(raw) } else { raw };
        let odd = odd_chars(l);
        if trim_st(l).is_empty() {
            continue;
        }
        if l.contains('%') {
            // Aspartix proper has % comments; the property does not mention them
            return RefOutcome::Unspecified("% comment", None);
        }
        match apx_line(l) {
            Some((is_arg, ids, lenient)) => {
                if lenient {
                    unspec = Some("terminator is not a dot");
                }
                if odd {
                    unspec = Some("control or non-ASCII character");
                }
                let rej = |why: &'static str| if let Some(u) = unspec { RefOutcome::Unspecified(u, None) } else { RefOutcome::Reject(why) };
                if is_arg {
                    if seen_att {
                        return rej("argument declared after an attack");
                    }
                    if !args.contains(&ids[0]) {
                        args.push(ids[0].clone());
                    }
                } else {
                    seen_att = true;
                    if !args.contains(&ids[0]) || !args.contains(&ids[1]) {
                        return rej("attack on an undeclared argument");
                    }
                    atts.push((ids[0].clone(), ids[1].clone()));
                }
            }
            None => {
                return if odd {
                    RefOutcome::Unspecified("control or non-ASCII character", None)
                } else if let Some(u) = unspec {
                    RefOutcome::Unspecified(u, None)
                } else {
                    RefOutcome::Reject("line is neither arg(x). nor att(x,y).")
                };
            }
        }
    }
    if args.len() as u64 > MAX_DECLARED {
        return RefOutcome::TooLarge;
    }
    let g = RefGraph { labels: args, attacks: atts };
    match unspec {
        Some(u) => RefOutcome::Unspecified(u, Some(g)),
        None => RefOutcome::Accept(g),
    }
}
