//! Generic driver: proptest runners on worker threads, enumeration of small scopes,
//! statistics, shrinking to a replay file, known findings, evidence.

use proptest::strategy::{BoxedStrategy, Strategy, ValueTree};
use proptest::test_runner::{Config, RngAlgorithm, TestCaseError, TestError, TestRng, TestRunner};
use serde::{de::DeserializeOwned, Serialize};
use serde_json::{json, Map, Value};
use std::collections::{BTreeMap, HashSet};
use std::fmt::Debug;
use std::hash::{Hash, Hasher};
use std::panic::{catch_unwind, AssertUnwindSafe};
use std::path::{Path, PathBuf};
use std::sync::atomic::{AtomicBool, Ordering};
use std::sync::Mutex;
use std::time::Instant;

#[derive(Clone, Copy, Debug, PartialEq, Eq)]
pub enum Tier {
    Quick,
    Thorough,
}

impl Tier {
    pub fn name(self) -> &'static str {
        match self {
            Tier::Quick => "quick",
            Tier::Thorough => "thorough",
        }
    }
    pub fn pick<T>(self, quick: T, thorough: T) -> T {
        match self {
            Tier::Quick => quick,
            Tier::Thorough => thorough,
        }
    }
}

#[derive(Clone, Debug)]
pub struct Failure {
    /// Names the root cause narrowly: which clause of the property failed on which path.
    pub signature: String,
    pub message: String,
    /// The failure is expensive to reproduce (watchdog expiry): report the case as found.
    pub no_shrink: bool,
}

impl Failure {
    pub fn new(signature: impl Into<String>, message: impl Into<String>) -> Failure {
        Failure { signature: signature.into(), message: message.into(), no_shrink: false }
    }
    pub fn unshrinkable(mut self) -> Failure {
        self.no_shrink = true;
        self
    }
}

pub type CheckResult = Result<(), Failure>;

/// An abort that is neither pass nor violation (call cap, resource limit).
pub struct Inconclusive(pub String);

pub fn stable_hash<T: Hash + ?Sized>(t: &T) -> u64 {
    // SipHash with fixed keys: deterministic across runs and platforms of this image.
    #[allow(deprecated)]
    let mut h = std::hash::SipHasher::new_with_keys(0x5eed, 0xc0ffee);
    t.hash(&mut h);
    h.finish()
}

/// Per-worker statistics.
pub struct Rec {
    pub counting: bool,
    pub evaluations: u64,
    pub cases: u64,
    pub nontrivial: HashSet<u64>,
    pub classes: BTreeMap<String, u64>,
    pub counters: BTreeMap<String, u64>,
    pub samples: Vec<Value>,
    pub largest: Option<(usize, Value)>,
    pub excluded: BTreeMap<String, u64>,
    pub inconclusive: BTreeMap<String, u64>,
    /// set by an extra phase that could not reach a verdict: the whole run is then inconclusive
    pub fatal_inconclusive: Option<String>,
    pub sample_cap: usize,
}

impl Default for Rec {
    fn default() -> Self {
        Rec {
            counting: true,
            evaluations: 0,
            cases: 0,
            nontrivial: HashSet::new(),
            classes: BTreeMap::new(),
            counters: BTreeMap::new(),
            samples: vec![],
            largest: None,
            excluded: BTreeMap::new(),
            inconclusive: BTreeMap::new(),
            fatal_inconclusive: None,
            sample_cap: 3,
        }
    }
}

impl Rec {
    /// One evaluation of the oracle against the implementation.
    pub fn eval(&mut self) {
        if self.counting {
            self.evaluations += 1;
        }
    }
    pub fn evals(&mut self, k: u64) {
        if self.counting {
            self.evaluations += k;
        }
    }
    /// Registers a non-trivial case by a key identifying it; returns true if new.
    pub fn nontrivial<K: Hash>(&mut self, key: &K) -> bool {
        if self.counting {
            self.nontrivial.insert(stable_hash(key))
        } else {
            false
        }
    }
    pub fn class(&mut self, name: &str) {
        if self.counting {
            *self.classes.entry(name.to_string()).or_default() += 1;
        }
    }
    pub fn count(&mut self, name: &str, k: u64) {
        if self.counting {
            *self.counters.entry(name.to_string()).or_default() += k;
        }
    }
    pub fn sample(&mut self, f: impl FnOnce() -> Value) {
        if !self.counting {
            return;
        }
        if self.samples.len() < self.sample_cap {
            self.samples.push(f());
        }
    }
    pub fn sample_sized(&mut self, size: usize, f: impl FnOnce() -> Value) {
        if !self.counting {
            return;
        }
        if self.samples.len() < self.sample_cap {
            let v = f();
            if self.largest.as_ref().map_or(true, |(s, _)| size > *s) {
                self.largest = Some((size, v.clone()));
            }
            self.samples.push(v);
        } else if self.largest.as_ref().map_or(true, |(s, _)| size > *s) {
            self.largest = Some((size, f()));
        }
    }
    pub fn inconclusive(&mut self, why: &str) {
        if self.counting {
            *self.inconclusive.entry(why.to_string()).or_default() += 1;
        }
    }
    pub fn merge(&mut self, o: Rec) {
        self.evaluations += o.evaluations;
        self.cases += o.cases;
        self.nontrivial.extend(o.nontrivial);
        for (k, v) in o.classes {
            *self.classes.entry(k).or_default() += v;
        }
        for (k, v) in o.counters {
            *self.counters.entry(k).or_default() += v;
        }
        for (k, v) in o.excluded {
            *self.excluded.entry(k).or_default() += v;
        }
        for (k, v) in o.inconclusive {
            *self.inconclusive.entry(k).or_default() += v;
        }
        for s in o.samples {
            if self.samples.len() < 6 {
                self.samples.push(s);
            }
        }
        if let Some((sz, v)) = o.largest {
            if self.largest.as_ref().map_or(true, |(s, _)| sz > *s) {
                self.largest = Some((sz, v));
            }
        }
    }
}

pub trait Prop: Sync {
    type Case: Clone + Debug + Serialize + DeserializeOwned + Send + 'static;
    fn id(&self) -> &'static str;
    fn level(&self) -> &'static str {
        "exploration"
    }
    fn rule(&self) -> String;
    fn assumptions(&self) -> Vec<String> {
        vec![]
    }
    fn strategy(&self, tier: Tier) -> BoxedStrategy<Self::Case>;
    /// Total number of generated cases for the tier (split over workers).
    fn n_cases(&self, tier: Tier) -> u32;
    /// Exhaustively enumerated sub-space (small scope), if any, with a description.
    fn enumerated(&self, _tier: Tier) -> (Vec<Self::Case>, String) {
        (vec![], String::new())
    }
    fn run(&self, case: &Self::Case, rec: &mut Rec) -> CheckResult;
    /// One-time preparation (e.g. building binaries). Err => inconclusive (exit 2).
    fn setup(&self, _tier: Tier) -> Result<(), String> {
        Ok(())
    }
    /// Extra deterministic phases that are not proptest-driven (returns failures with replay cases).
    fn extra_phase(&self, _tier: Tier, _seed: u64, _rec: &mut Rec) -> Result<(), (Self::Case, Failure)> {
        Ok(())
    }
    fn finish_coverage(&self, _cov: &mut Map<String, Value>, _rec: &Rec) {}
    fn max_shrink_iters(&self) -> u32 {
        20_000
    }
    fn workers(&self, _tier: Tier) -> usize {
        default_workers()
    }
}

pub fn default_workers() -> usize {
    std::env::var("VERIF_JOBS").ok().and_then(|s| s.parse().ok()).unwrap_or(16)
}

pub struct Options {
    pub tier: Tier,
    pub seed: u64,
    pub replay: Option<PathBuf>,
    pub verif_dir: PathBuf,
    pub cases_override: Option<u32>,
}

#[derive(Clone, Debug)]
pub struct KnownFinding {
    pub property: String,
    pub signature: String,
    pub description: String,
}

pub fn load_known_findings(verif_dir: &Path) -> Vec<KnownFinding> {
    let p = verif_dir.join("known_findings.txt");
    let mut out = vec![];
    if let Ok(s) = std::fs::read_to_string(p) {
        for line in s.lines() {
            let line = line.trim();
            // open: property=C07 sig=<signature> :: <what fails>
            if let Some(rest) = line.strip_prefix("open:") {
                let rest = rest.trim();
                let (head, desc) = match rest.split_once("::") {
                    Some((h, d)) => (h.trim(), d.trim()),
                    None => (rest, ""),
                };
                let mut property = String::new();
                let mut signature = String::new();
                for tok in head.split_whitespace() {
                    if let Some(v) = tok.strip_prefix("property=") {
                        property = v.to_string();
                    } else if let Some(v) = tok.strip_prefix("sig=") {
                        signature = v.to_string();
                    }
                }
                if !property.is_empty() && !signature.is_empty() {
                    out.push(KnownFinding { property, signature, description: desc.to_string() });
                }
            }
        }
    }
    out
}

fn seed_bytes(seed: u64, id: &str, worker: u64) -> [u8; 32] {
    let mut out = [0u8; 32];
    for i in 0..4u64 {
        let h = stable_hash(&(seed, id, worker, i));
        out[(i as usize) * 8..(i as usize) * 8 + 8].copy_from_slice(&h.to_le_bytes());
    }
    out
}

pub fn panic_message(p: &Box<dyn std::any::Any + Send>) -> String {
    if let Some(s) = p.downcast_ref::<&str>() {
        s.to_string()
    } else if let Some(s) = p.downcast_ref::<String>() {
        s.clone()
    } else {
        "non-string panic payload".to_string()
    }
}

enum CaseOutcome {
    Pass,
    Fail(Failure),
    Known(String),
}

fn run_case<P: Prop>(prop: &P, case: &P::Case, rec: &mut Rec, known: &[KnownFinding]) -> CaseOutcome {
    if std::env::var_os("VERIF_TRACE").is_some() {
        eprintln!("TRACE {}", serde_json::to_string(case).unwrap_or_default());
    }
    let r = catch_unwind(AssertUnwindSafe(|| prop.run(case, rec)));
    let r = match r {
        Ok(r) => r,
        Err(p) => {
            if let Some(i) = p.downcast_ref::<Inconclusive>() {
                rec.inconclusive(&i.0);
                return CaseOutcome::Pass;
            }
            if p.downcast_ref::<crate::satwrap::CapExceeded>().is_some() {
                rec.inconclusive("sat-call-cap-exceeded");
                return CaseOutcome::Pass;
            }
            Err(Failure::new("harness/uncaught-panic", panic_message(&p)))
        }
    };
    match r {
        Ok(()) => CaseOutcome::Pass,
        Err(f) => {
            if known.iter().any(|k| k.property == prop.id() && k.signature == f.signature) {
                *rec.excluded.entry(f.signature.clone()).or_default() += 1;
                CaseOutcome::Known(f.signature)
            } else {
                CaseOutcome::Fail(f)
            }
        }
    }
}

pub struct Violation {
    pub case_json: Value,
    pub failure: Failure,
    pub origin: String,
}

/// Runs a property. Returns process exit code.
/// A violation some worker has already established while others are still running. When the process has to
/// be ended from outside the normal flow (global watchdog, memory monitor: another worker is stuck in, or is
/// being blown up by, the code under test) it is reported instead of being lost.
struct Pending {
    id: String,
    origin: String,
    case_json: Value,
    signature: String,
    message: String,
    seed: u64,
    tier: String,
    verif_dir: PathBuf,
}

static PENDING: Mutex<Option<Pending>> = Mutex::new(None);

fn set_pending(id: &str, opts: &Options, origin: &str, case_json: Value, f: &Failure) {
    let mut p = PENDING.lock().unwrap_or_else(|e| e.into_inner());
    *p = Some(Pending {
        id: id.to_string(),
        origin: origin.to_string(),
        case_json,
        signature: f.signature.clone(),
        message: f.message.clone(),
        seed: opts.seed,
        tier: opts.tier.name().to_string(),
        verif_dir: opts.verif_dir.clone(),
    });
}

/// Prints and stores the pending violation, if any; true when one was reported.
pub fn emergency_report() -> bool {
    let p = PENDING.lock().unwrap_or_else(|e| e.into_inner());
    match &*p {
        None => false,
        Some(v) => {
            let dir = v.verif_dir.join("replays").join("found");
            let _ = std::fs::create_dir_all(&dir);
            let path = dir.join(format!("{}-{:016x}.json", v.id, stable_hash(&v.case_json.to_string())));
            let doc = json!({"property": v.id, "signature": v.signature, "message": v.message, "origin": format!("{} (reported from the emergency path)", v.origin),
                             "seed": v.seed, "tier": v.tier, "case": v.case_json});
            let _ = std::fs::write(&path, serde_json::to_string_pretty(&doc).unwrap());
            println!("failure: [{}] {}", v.signature, v.message);
            println!("VIOLATION property={} replay={}", v.id, path.display());
            true
        }
    }
}

/// Ends the process when its resident memory exceeds the limit (VERIF_RSS_LIMIT_GB, default 28): exit 1 with
/// the pending violation if one exists, exit 2 (inconclusive) otherwise. Without it the kernel would kill
/// the check (exit 137) and whatever had been found would be lost.
fn start_memory_monitor(id: &'static str) {
    let limit_gb: u64 = std::env::var("VERIF_RSS_LIMIT_GB").ok().and_then(|s| s.parse().ok()).unwrap_or(28);
    std::thread::spawn(move || loop {
        std::thread::sleep(std::time::Duration::from_millis(200));
        let rss_pages: u64 = std::fs::read_to_string("/proc/self/statm").ok().and_then(|s| s.split_whitespace().nth(1).and_then(|x| x.parse().ok())).unwrap_or(0);
        if rss_pages * 4096 > limit_gb << 30 {
            let reported = emergency_report();
            if !reported {
                println!("INCONCLUSIVE property={} resident memory above {} GB (a case that does not fit, or runaway allocation in the code under test)", id, limit_gb);
            }
            crate::util::kill_descendants();
            std::process::exit(if reported { 1 } else { 2 });
        }
    });
}

pub fn drive<P: Prop>(prop: &P, opts: &Options) -> i32 {
    let start = Instant::now();
    let id = prop.id();
    start_memory_monitor(id);
    let known: Vec<KnownFinding> =
        load_known_findings(&opts.verif_dir).into_iter().filter(|k| k.property == id).collect();

    if let Err(e) = prop.setup(opts.tier) {
        println!("INCONCLUSIVE property={} setup failed: {}", id, e);
        return 2;
    }

    // --replay: run exactly one stored case.
    if let Some(path) = &opts.replay {
        let txt = match std::fs::read_to_string(path) {
            Ok(t) => t,
            Err(e) => {
                println!("INCONCLUSIVE cannot read replay {}: {}", path.display(), e);
                return 2;
            }
        };
        let v: Value = serde_json::from_str(&txt).expect("replay file is not JSON");
        let case: P::Case = serde_json::from_value(v["case"].clone()).expect("replay case does not decode");
        let mut rec = Rec::default();
        return match run_case(prop, &case, &mut rec, &[]) {
            CaseOutcome::Pass | CaseOutcome::Known(_) => {
                println!("replay passed: property={} {}", id, path.display());
                0
            }
            CaseOutcome::Fail(f) => {
                println!("replay failed: [{}] {}", f.signature, f.message);
                println!("VIOLATION property={} replay={}", id, path.display());
                1
            }
        };
    }

    let mut total = Rec::default();
    total.sample_cap = 6;
    let mut violation: Option<Violation> = None;

    // Phase 0: committed regression corpus.
    let regress_dir = opts.verif_dir.join("replays").join("regress").join(id);
    let mut regress_files: Vec<PathBuf> = std::fs::read_dir(&regress_dir)
        .map(|d| d.filter_map(|e| e.ok()).map(|e| e.path()).filter(|p| p.extension().map_or(false, |x| x == "json")).collect())
        .unwrap_or_default();
    regress_files.sort();
    let mut n_regress = 0u64;
    for path in &regress_files {
        let txt = std::fs::read_to_string(path).unwrap_or_default();
        let v: Value = match serde_json::from_str(&txt) {
            Ok(v) => v,
            Err(_) => continue,
        };
        let case: P::Case = match serde_json::from_value(v["case"].clone()) {
            Ok(c) => c,
            Err(e) => {
                println!("INCONCLUSIVE regression case {} does not decode: {}", path.display(), e);
                return 2;
            }
        };
        n_regress += 1;
        match run_case(prop, &case, &mut total, &known) {
            CaseOutcome::Pass | CaseOutcome::Known(_) => {}
            CaseOutcome::Fail(f) => {
                println!("regression case failed: [{}] {}", f.signature, f.message);
                println!("VIOLATION property={} replay={}", id, path.display());
                write_evidence(prop, opts, &total, start, 1, n_regress, 0, "", &known);
                return 1;
            }
        }
    }

    // Phase 1: exhaustive small scope.
    let (enumerated, enum_desc) = prop.enumerated(opts.tier);
    let n_enum = enumerated.len() as u64;
    let workers = prop.workers(opts.tier).max(1);
    let stop = AtomicBool::new(false);
    let results: Mutex<Vec<(Rec, Option<Violation>)>> = Mutex::new(vec![]);
    if !enumerated.is_empty() {
        let chunks: Vec<Vec<P::Case>> = {
            let mut c: Vec<Vec<P::Case>> = (0..workers).map(|_| vec![]).collect();
            for (i, case) in enumerated.into_iter().enumerate() {
                c[i % workers].push(case);
            }
            c
        };
        std::thread::scope(|s| {
            for chunk in chunks {
                let known = &known;
                let stop = &stop;
                let results = &results;
                s.spawn(move || {
                    let mut rec = Rec::default();
                    let mut viol = None;
                    for case in chunk {
                        if stop.load(Ordering::Relaxed) {
                            break;
                        }
                        rec.cases += 1;
                        if let CaseOutcome::Fail(f) = run_case(prop, &case, &mut rec, known) {
                            stop.store(true, Ordering::Relaxed);
                            set_pending(id, opts, "enumeration", serde_json::to_value(&case).unwrap(), &f);
                            viol = Some(Violation {
                                case_json: serde_json::to_value(&case).unwrap(),
                                failure: f,
                                origin: "enumeration".into(),
                            });
                            break;
                        }
                    }
                    results.lock().unwrap().push((rec, viol));
                });
            }
        });
        for (rec, v) in results.lock().unwrap().drain(..) {
            total.merge(rec);
            if violation.is_none() {
                violation = v;
            }
        }
    }

    // Phase 2: generated cases with shrinking.
    let n_cases = opts.cases_override.unwrap_or_else(|| prop.n_cases(opts.tier));
    if violation.is_none() && n_cases > 0 {
        let per_worker = (n_cases + workers as u32 - 1) / workers as u32;
        std::thread::scope(|s| {
            for w in 0..workers {
                let known = &known;
                let stop = &stop;
                let results = &results;
                let seed = opts.seed;
                let tier = opts.tier;
                s.spawn(move || {
                    let strategy = prop.strategy(tier);
                    let config = Config {
                        cases: per_worker,
                        failure_persistence: None,
                        max_shrink_iters: prop.max_shrink_iters(),
                        max_global_rejects: 1 << 20,
                        max_local_rejects: 1 << 20,
                        ..Config::default()
                    };
                    let rng = TestRng::from_seed(RngAlgorithm::ChaCha, &seed_bytes(seed, prop.id(), w as u64));
                    let mut runner = TestRunner::new_with_rng(config, rng);
                    let rec = std::cell::RefCell::new(Rec::default());
                    let first_sig: std::cell::RefCell<Option<String>> = std::cell::RefCell::new(None);
                    let last_failure: std::cell::RefCell<Option<Failure>> = std::cell::RefCell::new(None);
                    let frozen: std::cell::RefCell<Option<(Value, Failure)>> = std::cell::RefCell::new(None);
                    let shrink_started: std::cell::Cell<Option<std::time::Instant>> = std::cell::Cell::new(None);
                    let shrink_budget: u64 = std::env::var("VERIF_SHRINK_S").ok().and_then(|s| s.parse().ok()).unwrap_or(120);
                    let result = runner.run(&strategy, |case| {
                        if frozen.borrow().is_some() {
                            // an unshrinkable failure was found: let the shrinker run dry
                            return Ok(());
                        }
                        let shrinking = first_sig.borrow().is_some();
                        if !shrinking && stop.load(Ordering::Relaxed) {
                            return Ok(());
                        }
                        // shrinking gets a wall-clock budget: after it every further candidate "passes", so the
                        // shrinker runs dry and the smallest failing case found so far is reported
                        if shrinking && shrink_started.get().map_or(false, |t: std::time::Instant| t.elapsed().as_secs() > shrink_budget) {
                            return Ok(());
                        }
                        let mut rec = rec.borrow_mut();
                        if !shrinking {
                            rec.cases += 1;
                        }
                        match run_case(prop, &case, &mut rec, known) {
                            CaseOutcome::Pass | CaseOutcome::Known(_) => Ok(()),
                            CaseOutcome::Fail(f) => {
                                let mut fs = first_sig.borrow_mut();
                                match &*fs {
                                    None => {
                                        *fs = Some(f.signature.clone());
                                        set_pending(id, opts, &format!("generated worker={} (before shrinking)", w), serde_json::to_value(&case).unwrap(), &f);
                                        shrink_started.set(Some(std::time::Instant::now()));
                                        rec.counting = false;
                                        stop.store(true, Ordering::Relaxed);
                                    }
                                    Some(sig) => {
                                        // While shrinking, keep to the same root cause.
                                        if *sig != f.signature {
                                            return Ok(());
                                        }
                                    }
                                }
                                let msg = f.message.clone();
                                if f.no_shrink {
                                    *frozen.borrow_mut() = Some((serde_json::to_value(&case).unwrap(), f.clone()));
                                }
                                *last_failure.borrow_mut() = Some(f);
                                Err(TestCaseError::fail(msg))
                            }
                        }
                    });
                    let mut rec = rec.into_inner();
                    let last_failure = last_failure.into_inner();
                    let frozen = frozen.into_inner();
                    let viol = match result {
                        Ok(()) => None,
                        Err(TestError::Fail(..)) if frozen.is_some() => {
                            let (case_json, failure) = frozen.unwrap();
                            Some(Violation { case_json, failure, origin: format!("generated worker={} (not shrunk)", w) })
                        }
                        Err(TestError::Fail(_, case)) => {
                            // Re-run the minimal case to get its exact message.
                            let mut scratch = Rec::default();
                            scratch.counting = false;
                            let f = match run_case(prop, &case, &mut scratch, &[]) {
                                CaseOutcome::Fail(f) => f,
                                _ => last_failure.clone().unwrap_or_else(|| Failure::new("harness/unstable", "minimal case passed on re-run")),
                            };
                            Some(Violation {
                                case_json: serde_json::to_value(&case).unwrap(),
                                failure: f,
                                origin: format!("generated worker={}", w),
                            })
                        }
                        Err(TestError::Abort(r)) => {
                            rec.inconclusive(&format!("proptest-abort: {}", r));
                            None
                        }
                    };
                    if let Some(v) = &viol {
                        set_pending(id, opts, &v.origin, v.case_json.clone(), &v.failure);
                    }
                    results.lock().unwrap().push((rec, viol));
                });
            }
        });
        let mut rs: Vec<(Rec, Option<Violation>)> = results.lock().unwrap().drain(..).collect();
        // deterministic choice among workers: smallest case JSON
        rs.sort_by_key(|(_, v)| v.as_ref().map(|v| v.case_json.to_string().len()).unwrap_or(usize::MAX));
        for (rec, v) in rs {
            total.merge(rec);
            if violation.is_none() {
                violation = v;
            }
        }
    }

    // Phase 3: property-specific extra phase.
    if violation.is_none() {
        if let Err((case, f)) = prop.extra_phase(opts.tier, opts.seed, &mut total) {
            if known.iter().any(|k| k.signature == f.signature) {
                *total.excluded.entry(f.signature.clone()).or_default() += 1;
            } else {
                violation = Some(Violation {
                    case_json: serde_json::to_value(&case).unwrap(),
                    failure: f,
                    origin: "extra-phase".into(),
                });
            }
        }
    }

    for (sig, n) in &total.excluded {
        let desc = known.iter().find(|k| &k.signature == sig).map(|k| k.description.clone()).unwrap_or_default();
        println!("KNOWN-FINDING: property={} sig={} occurrences={} {}", id, sig, n, desc);
    }

    let mut code = 0;
    if let Some(v) = &violation {
        let dir = opts.verif_dir.join("replays").join("found");
        let _ = std::fs::create_dir_all(&dir);
        let h = stable_hash(&v.case_json.to_string());
        let path = dir.join(format!("{}-{:016x}.json", id, h));
        let doc = json!({
            "property": id,
            "signature": v.failure.signature,
            "message": v.failure.message,
            "origin": v.origin,
            "seed": opts.seed,
            "tier": opts.tier.name(),
            "case": v.case_json,
        });
        std::fs::write(&path, serde_json::to_string_pretty(&doc).unwrap()).expect("cannot write replay");
        println!("failure: [{}] {}", v.failure.signature, v.failure.message);
        println!("VIOLATION property={} replay={}", id, path.display());
        code = 1;
    }
    write_evidence(prop, opts, &total, start, if violation.is_some() { 1 } else { 0 }, n_regress, n_enum, &enum_desc, &known);
    if code == 0 {
        if let Some(why) = &total.fatal_inconclusive {
            println!("INCONCLUSIVE property={} {}", id, why);
            code = 2;
        }
    }
    if code == 0 && !total.inconclusive.is_empty() {
        let n: u64 = total.inconclusive.values().sum();
        println!("note: {} case(s) inconclusive: {:?}", n, total.inconclusive);
        // A run in which a substantial part of the work was aborted decides nothing.
        if n * 20 > total.cases.max(1) {
            println!("INCONCLUSIVE property={} too many aborted cases", id);
            code = 2;
        }
    }
    if code == 0 {
        println!(
            "OK property={} tier={} seed={} cases={} evaluations={} distinct_nontrivial={} wall_s={:.1}",
            id,
            opts.tier.name(),
            opts.seed,
            total.cases,
            total.evaluations,
            total.nontrivial.len(),
            start.elapsed().as_secs_f64()
        );
    }
    code
}

#[allow(clippy::too_many_arguments)]
fn write_evidence<P: Prop>(
    prop: &P,
    opts: &Options,
    rec: &Rec,
    start: Instant,
    violations: i64,
    n_regress: u64,
    n_enum: u64,
    enum_desc: &str,
    known: &[KnownFinding],
) {
    let mut cov = Map::new();
    cov.insert("evaluations".into(), json!(rec.evaluations.max(rec.cases)));
    cov.insert("cases".into(), json!(rec.cases));
    cov.insert("distinct_nontrivial".into(), json!(rec.nontrivial.len()));
    cov.insert("rule".into(), json!(prop.rule()));
    let mut samples = rec.samples.clone();
    if let Some((_, v)) = &rec.largest {
        if !samples.contains(v) {
            samples.push(v.clone());
        }
    }
    cov.insert("samples".into(), Value::Array(samples));
    cov.insert("classes".into(), json!(rec.classes));
    cov.insert("counters".into(), json!(rec.counters));
    cov.insert("excluded_known_findings".into(), json!(rec.excluded));
    cov.insert("inconclusive_cases".into(), json!(rec.inconclusive));
    cov.insert("regression_cases_replayed".into(), json!(n_regress));
    if n_enum > 0 {
        cov.insert(
            "exhaustive_subspace".into(),
            json!({"cases": n_enum, "description": enum_desc, "complete": violations == 0}),
        );
    }
    cov.insert("exhaustive".into(), json!(false));
    cov.insert("open_known_findings".into(), json!(known.iter().map(|k| k.signature.clone()).collect::<Vec<_>>()));
    prop.finish_coverage(&mut cov, rec);
    let doc = json!({
        "property_id": prop.id(),
        "tier": opts.tier.name(),
        "seed": opts.seed,
        "level": prop.level(),
        "coverage": Value::Object(cov),
        "assumptions": prop.assumptions(),
        "wall_s": start.elapsed().as_secs_f64(),
        "violations": violations,
    });
    let dir = opts.verif_dir.join("evidence");
    let _ = std::fs::create_dir_all(&dir);
    // a run with an overridden case count is a developer's probe, not the registered check
    let name = if opts.cases_override.is_some() { format!("{}.partial.json", prop.id()) } else { format!("{}.json", prop.id()) };
    let path = dir.join(name);
    std::fs::write(&path, serde_json::to_string_pretty(&doc).unwrap()).expect("cannot write evidence");
}

/// Helper: produce a value from a strategy deterministically (used by extra phases).
pub fn sample_strategy<T: Debug>(strategy: &BoxedStrategy<T>, seed: u64, id: &str, k: u64) -> T {
    let rng = TestRng::from_seed(RngAlgorithm::ChaCha, &seed_bytes(seed, id, 1_000_000 + k));
    let mut runner = TestRunner::new_with_rng(Config { failure_persistence: None, ..Config::default() }, rng);
    strategy.new_tree(&mut runner).expect("strategy failed").current()
}
