//! Shared extra phase: a libFuzzer campaign whose in-target oracle is the property's own check.

use crate::engine::{Failure, Rec, Tier};
use crate::fuzzrun;
use serde::de::DeserializeOwned;

pub fn fuzz_phase<C: DeserializeOwned>(
    target: &str,
    tier: Tier,
    seed: u64,
    rec: &mut Rec,
    seeds: Vec<Vec<u8>>,
    runs_per_proc: u64,
    max_len: usize,
) -> Result<(), (C, Failure)> {
    if tier != Tier::Thorough || std::env::var_os("VERIF_NO_FUZZ").is_some() {
        return Ok(());
    }
    let procs = std::env::var("VERIF_FUZZ_PROCS").ok().and_then(|s| s.parse().ok()).unwrap_or(12usize);
    let runs = std::env::var("VERIF_FUZZ_RUNS").ok().and_then(|s| s.parse().ok()).unwrap_or(runs_per_proc);
    let r = fuzzrun::run(target, &seeds, runs, procs, seed, max_len);
    if !r.available {
        println!("note: libFuzzer phase skipped ({})", r.note);
        rec.count("libfuzzer-unavailable", 1);
        return Ok(());
    }
    rec.count("libfuzzer-executions", r.execs);
    rec.count("libfuzzer-processes", r.procs as u64);
    rec.evals(r.execs);
    if let Some((path, v)) = r.violation {
        let f = Failure::new(v["signature"].as_str().unwrap_or("fuzz"), format!("{} (libFuzzer, first written to {})", v["message"].as_str().unwrap_or(""), path.display()));
        match serde_json::from_value::<C>(v["case"].clone()) {
            Ok(case) => return Err((case, f)),
            Err(e) => rec.fatal_inconclusive = Some(format!("fuzz replay {} does not decode: {}", path.display(), e)),
        }
    } else if let Some(c) = r.unexplained_crash {
        rec.fatal_inconclusive = Some(format!("{} ({})", c, r.note));
    }
    Ok(())
}
