//! Brute-force reference semantics over bitmasks (n <= 20), written from the
//! textbook definitions, and a backtracking reference for 14-26 arguments (`Fams::new_medium`)
//! that is itself compared with the brute force at every start-up. Shares nothing with crustabri.

#[derive(Clone, Debug)]
pub struct G {
    pub n: usize,
    pub attackers: Vec<u32>,
    pub targets: Vec<u32>,
}

#[derive(Clone, Copy, Debug, PartialEq, Eq, Hash, PartialOrd, Ord, serde::Serialize, serde::Deserialize)]
pub enum Sem {
    GR,
    CO,
    PR,
    ST,
    SST,
    STG,
    ID,
}

pub const ALL_SEMS: [Sem; 7] = [Sem::GR, Sem::CO, Sem::PR, Sem::ST, Sem::SST, Sem::STG, Sem::ID];

impl Sem {
    pub fn name(self) -> &'static str {
        match self {
            Sem::GR => "GR",
            Sem::CO => "CO",
            Sem::PR => "PR",
            Sem::ST => "ST",
            Sem::SST => "SST",
            Sem::STG => "STG",
            Sem::ID => "ID",
        }
    }
    pub fn from_name(s: &str) -> Option<Sem> {
        ALL_SEMS.iter().copied().find(|x| x.name() == s)
    }
}

impl G {
    pub fn new(n: usize, att: &[(usize, usize)]) -> G {
        assert!(n <= 30);
        let mut attackers = vec![0u32; n];
        let mut targets = vec![0u32; n];
        for &(a, b) in att {
            attackers[b] |= 1 << a;
            targets[a] |= 1 << b;
        }
        G { n, attackers, targets }
    }
    pub fn full(&self) -> u32 {
        if self.n == 0 {
            0
        } else {
            (!0u32) >> (32 - self.n)
        }
    }
    pub fn targets_of(&self, s: u32) -> u32 {
        let mut t = 0;
        let mut x = s;
        while x != 0 {
            let i = x.trailing_zeros() as usize;
            t |= self.targets[i];
            x &= x - 1;
        }
        t
    }
    pub fn attackers_of(&self, s: u32) -> u32 {
        let mut t = 0;
        let mut x = s;
        while x != 0 {
            let i = x.trailing_zeros() as usize;
            t |= self.attackers[i];
            x &= x - 1;
        }
        t
    }
    pub fn range(&self, s: u32) -> u32 {
        s | self.targets_of(s)
    }
    pub fn cf(&self, s: u32) -> bool {
        self.targets_of(s) & s == 0
    }
    /// The set of arguments all of whose attackers are attacked by `s`.
    pub fn defended(&self, s: u32) -> u32 {
        let t = self.targets_of(s);
        let mut d = 0;
        for a in 0..self.n {
            if self.attackers[a] & !t == 0 {
                d |= 1 << a;
            }
        }
        d
    }
    pub fn adm(&self, s: u32) -> bool {
        self.cf(s) && (s & !self.defended(s)) == 0
    }
    pub fn complete(&self, s: u32) -> bool {
        self.cf(s) && self.defended(s) == s
    }
    pub fn stable(&self, s: u32) -> bool {
        self.cf(s) && self.range(s) == self.full()
    }
    pub fn grounded(&self) -> u32 {
        let mut s = 0;
        loop {
            let d = self.defended(s);
            if d == s {
                return s;
            }
            s = d;
        }
    }
    pub fn all(&self, f: impl Fn(u32) -> bool) -> Vec<u32> {
        (0..=self.full()).filter(|s| f(*s)).collect()
    }
    pub fn maximal_by(&self, sets: &[u32], key: impl Fn(u32) -> u32) -> Vec<u32> {
        let keys: Vec<u32> = sets.iter().map(|&s| key(s)).collect();
        let mut out = vec![];
        for (i, &s) in sets.iter().enumerate() {
            let k = keys[i];
            if !keys.iter().any(|&kt| kt != k && (kt & k) == k) {
                out.push(s);
            }
        }
        out
    }
    pub fn exts(&self, sem: Sem) -> Vec<u32> {
        match sem {
            Sem::GR => vec![self.grounded()],
            Sem::CO => self.all(|s| self.complete(s)),
            Sem::PR => {
                let a = self.all(|s| self.adm(s));
                self.maximal_by(&a, |s| s)
            }
            Sem::ST => self.all(|s| self.stable(s)),
            Sem::SST => {
                let a = self.all(|s| self.complete(s));
                self.maximal_by(&a, |s| self.range(s))
            }
            Sem::STG => {
                let a = self.all(|s| self.cf(s));
                self.maximal_by(&a, |s| self.range(s))
            }
            Sem::ID => {
                let pr = self.exts(Sem::PR);
                let inter = pr.iter().fold(self.full(), |a, b| a & b);
                let a: Vec<u32> = self.all(|s| self.adm(s) && (s & !inter) == 0);
                let m = self.maximal_by(&a, |s| s);
                assert_eq!(m.len(), 1, "ideal extension must be unique");
                m
            }
        }
    }
    /// Weakly connected components as masks, ordered by smallest member.
    pub fn components(&self) -> Vec<u32> {
        let mut seen = 0u32;
        let mut out = vec![];
        for s0 in 0..self.n {
            if seen & (1 << s0) != 0 {
                continue;
            }
            let mut comp = 1u32 << s0;
            loop {
                let next = comp | self.targets_of(comp) | self.attackers_of(comp);
                if next == comp {
                    break;
                }
                comp = next;
            }
            seen |= comp;
            out.push(comp);
        }
        out
    }
    /// Sub-framework induced by the mask; returns it with the list of original indices.
    pub fn induced(&self, mask: u32) -> (G, Vec<usize>) {
        let idx: Vec<usize> = (0..self.n).filter(|i| mask & (1 << i) != 0).collect();
        let mut att = vec![];
        for (ni, &i) in idx.iter().enumerate() {
            for (nj, &j) in idx.iter().enumerate() {
                if self.targets[i] & (1 << j) != 0 {
                    att.push((ni, nj));
                }
            }
        }
        (G::new(idx.len(), &att), idx)
    }
    pub fn has_self_attack(&self) -> bool {
        (0..self.n).any(|i| self.targets[i] & (1 << i) != 0)
    }
    pub fn attack_list(&self) -> Vec<(usize, usize)> {
        let mut v = vec![];
        for i in 0..self.n {
            for j in 0..self.n {
                if self.targets[i] & (1 << j) != 0 {
                    v.push((i, j));
                }
            }
        }
        v
    }
}

/// All families for one graph, computed once.
pub struct Fams {
    pub cf: Vec<u32>,
    pub adm: Vec<u32>,
    pub co: Vec<u32>,
    pub st: Vec<u32>,
    pub pr: Vec<u32>,
    pub sst: Vec<u32>,
    pub stg: Vec<u32>,
    pub gr: u32,
    pub id: u32,
}

impl Fams {
    pub fn new(g: &G) -> Fams {
        let cf = g.all(|s| g.cf(s));
        let adm: Vec<u32> = cf.iter().copied().filter(|&s| s & !g.defended(s) == 0).collect();
        let co: Vec<u32> = adm.iter().copied().filter(|&s| g.defended(s) == s).collect();
        let st: Vec<u32> = cf.iter().copied().filter(|&s| g.range(s) == g.full()).collect();
        let pr = g.maximal_by(&adm, |s| s);
        let sst = g.maximal_by(&co, |s| g.range(s));
        let stg = g.maximal_by(&cf, |s| g.range(s));
        let inter = pr.iter().fold(g.full(), |a, b| a & b);
        let cand: Vec<u32> = adm.iter().copied().filter(|&s| s & !inter == 0).collect();
        let idm = g.maximal_by(&cand, |s| s);
        assert_eq!(idm.len(), 1, "ideal extension must be unique");
        Fams { cf, adm, co, st, pr, sst, stg, gr: g.grounded(), id: idm[0] }
    }
    pub fn exts(&self, sem: Sem) -> Vec<u32> {
        match sem {
            Sem::GR => vec![self.gr],
            Sem::CO => self.co.clone(),
            Sem::PR => self.pr.clone(),
            Sem::ST => self.st.clone(),
            Sem::SST => self.sst.clone(),
            Sem::STG => self.stg.clone(),
            Sem::ID => vec![self.id],
        }
    }
}

/// Above this many complete extensions or maximal conflict-free sets a medium-size graph is not judged.
pub const MEDIUM_FAMILY_LIMIT: usize = 6_000;

impl G {
    /// All complete extensions by backtracking over IN / NOT-IN decisions with the propagation every
    /// complete extension obeys (an argument whose attackers are all attacked is in; attackers and targets
    /// of members are out; every attacker of a member needs a possible attacker). Each leaf is re-checked
    /// against the definition, so pruning can only lose extensions, never invent one; the start-up self-test
    /// compares the result with the brute force. None when more than `limit` extensions exist.
    pub fn complete_extensions(&self, limit: usize) -> Option<Vec<u32>> {
        fn rec(g: &G, mut inn: u32, notin: u32, out: &mut Vec<u32>, limit: usize) -> bool {
            let full = g.full();
            let mut notin = notin;
            loop {
                let attacked = g.targets_of(inn);
                if inn & attacked != 0 || inn & notin != 0 {
                    return true;
                }
                notin |= attacked | g.attackers_of(inn);
                if inn & notin != 0 {
                    return true;
                }
                let mut forced = 0u32;
                for a in 0..g.n {
                    if inn & (1 << a) == 0 && g.attackers[a] & !attacked == 0 {
                        forced |= 1 << a;
                    }
                }
                if forced & notin != 0 {
                    return true;
                }
                if forced == 0 {
                    break;
                }
                inn |= forced;
            }
            let attacked = g.targets_of(inn);
            let mut need = g.attackers_of(inn) & !attacked;
            while need != 0 {
                let b = need.trailing_zeros() as usize;
                if g.attackers[b] & !notin == 0 {
                    return true;
                }
                need &= need - 1;
            }
            let und = full & !(inn | notin);
            if und == 0 {
                if g.complete(inn) {
                    out.push(inn);
                    if out.len() > limit {
                        return false;
                    }
                }
                return true;
            }
            let a = 1u32 << und.trailing_zeros();
            rec(g, inn | a, notin, out, limit) && rec(g, inn, notin | a, out, limit)
        }
        let mut out = vec![];
        if rec(self, 0, 0, &mut out, limit) {
            out.sort();
            out.dedup();
            Some(out)
        } else {
            None
        }
    }

    /// All maximal conflict-free sets (Bron-Kerbosch on the compatibility relation). None above `limit`.
    pub fn naive_sets(&self, limit: usize) -> Option<Vec<u32>> {
        let selfless: u32 = (0..self.n).filter(|a| self.targets[*a] & (1 << a) == 0).fold(0, |m, a| m | (1 << a));
        // compatible[a]: arguments that can sit with a in a conflict-free set
        let compat: Vec<u32> = (0..self.n).map(|a| selfless & !(self.targets[a] | self.attackers[a] | (1 << a))).collect();
        fn bk(compat: &[u32], r: u32, mut p: u32, mut x: u32, out: &mut Vec<u32>, limit: usize) -> bool {
            if p == 0 {
                if x == 0 {
                    out.push(r);
                    if out.len() > limit {
                        return false;
                    }
                }
                return true;
            }
            while p != 0 {
                let v = p.trailing_zeros() as usize;
                let bit = 1u32 << v;
                if !bk(compat, r | bit, p & compat[v], x & compat[v], out, limit) {
                    return false;
                }
                p &= !bit;
                x |= bit;
            }
            true
        }
        let mut out = vec![];
        if bk(&compat, 0, selfless, 0, &mut out, limit) {
            out.sort();
            Some(out)
        } else {
            None
        }
    }
}

impl Fams {
    /// Brute force up to 13 arguments, the backtracking reference above (None when it gives up).
    pub fn auto(g: &G) -> Option<Fams> {
        if g.n > 13 {
            Fams::new_medium(g)
        } else {
            Some(Fams::new(g))
        }
    }

    /// The families of a graph of up to 30 arguments without enumerating its subsets; `cf` and `adm` are
    /// left empty (they are only used for classification and for C18's bounds on small graphs). None when
    /// the graph has more complete extensions or maximal conflict-free sets than `MEDIUM_FAMILY_LIMIT`.
    pub fn new_medium(g: &G) -> Option<Fams> {
        let co = g.complete_extensions(MEDIUM_FAMILY_LIMIT)?;
        let naive = g.naive_sets(MEDIUM_FAMILY_LIMIT)?;
        let st: Vec<u32> = co.iter().copied().filter(|&s| g.range(s) == g.full()).collect();
        let pr = g.maximal_by(&co, |s| s);
        let sst = g.maximal_by(&co, |s| g.range(s));
        // a conflict-free set that is not maximal has a strictly smaller range than any conflict-free
        // superset (the added member is not attacked by the set), so stage extensions are naive sets
        let stg = g.maximal_by(&naive, |s| g.range(s));
        // the ideal extension: the greatest self-defending subset of the intersection of the preferred ones
        let mut id = pr.iter().fold(g.full(), |a, b| a & b);
        loop {
            let t = g.targets_of(id);
            let keep = (0..g.n).filter(|a| id & (1 << a) != 0 && g.attackers[*a] & !t == 0).fold(0u32, |m, a| m | (1 << a));
            if keep == id {
                break;
            }
            id = keep;
        }
        Some(Fams { cf: vec![], adm: vec![], co, st, pr, sst, stg, gr: g.grounded(), id })
    }
}

/// `new_medium` against the brute force: all digraphs on <= 3 arguments and a fixed pseudo-random sample of
/// 3000 graphs on 4-12 arguments of varying density (with self-attacks).
pub fn self_test_medium() -> Result<usize, String> {
    let mut graphs: Vec<(usize, Vec<(usize, usize)>)> = vec![];
    for n in 0..=3usize {
        let pairs: Vec<(usize, usize)> = (0..n).flat_map(|a| (0..n).map(move |b| (a, b))).collect();
        for m in 0u32..(1u32 << pairs.len()) {
            graphs.push((n, pairs.iter().enumerate().filter(|(i, _)| m & (1 << i) != 0).map(|(_, p)| *p).collect()));
        }
    }
    let mut z: u64 = 0x0DDB_1A5E_5BAD_5EED;
    let mut next = move || {
        z ^= z << 13;
        z ^= z >> 7;
        z ^= z << 17;
        z
    };
    for _ in 0..3000 {
        let n = 4 + (next() % 9) as usize;
        let dens = 1 + next() % 5;
        let mut att = vec![];
        for a in 0..n {
            for b in 0..n {
                let r = next() % (2 * n as u64);
                if r < dens && (a != b || next() % 3 == 0) {
                    att.push((a, b));
                }
            }
        }
        graphs.push((n, att));
    }
    let mut checked = 0;
    for (n, att) in graphs {
        let g = G::new(n, &att);
        let b = Fams::new(&g);
        let m = Fams::new_medium(&g).ok_or_else(|| format!("family limit hit on n={} att={:?}", n, att))?;
        for sem in ALL_SEMS {
            let (mut x, mut y) = (b.exts(sem), m.exts(sem));
            x.sort();
            y.sort();
            if x != y {
                return Err(format!("{} on n={} att={:?}: brute force {:?}, backtracking {:?}", sem.name(), n, att, x, y));
            }
        }
        checked += 1;
    }
    Ok(checked)
}

pub fn dc(exts: &[u32], mask: u32) -> bool {
    exts.iter().any(|e| e & mask != 0)
}
pub fn ds(exts: &[u32], mask: u32) -> bool {
    exts.iter().all(|e| e & mask != 0)
}

/// Self-test of the oracle by textbook identities over all digraphs with n <= 3
/// (and a sample beyond). Returns the number of graphs checked.
pub fn self_test() -> Result<usize, String> {
    let mut checked = 0;
    for n in 0..=3usize {
        let pairs: Vec<(usize, usize)> = (0..n).flat_map(|a| (0..n).map(move |b| (a, b))).collect();
        for m in 0u32..(1u32 << pairs.len()) {
            let att: Vec<(usize, usize)> =
                pairs.iter().enumerate().filter(|(i, _)| m & (1 << i) != 0).map(|(_, p)| *p).collect();
            let g = G::new(n, &att);
            check_identities(&g).map_err(|e| format!("n={} att={:?}: {}", n, att, e))?;
            checked += 1;
        }
    }
    Ok(checked)
}

pub fn check_identities(g: &G) -> Result<(), String> {
    let f = Fams::new(g);
    let sub = |a: u32, b: u32| a & !b == 0;
    let inter_pr = f.pr.iter().fold(g.full(), |a, b| a & b);
    let inter_co = f.co.iter().fold(g.full(), |a, b| a & b);
    if !sub(f.gr, f.id) {
        return Err("GR not within ID".into());
    }
    if !sub(f.id, inter_pr) {
        return Err("ID not within every PR".into());
    }
    if inter_co != f.gr {
        return Err("GR != intersection of CO".into());
    }
    if !f.co.contains(&f.gr) || !f.co.contains(&f.id) {
        return Err("GR/ID not complete".into());
    }
    for s in &f.st {
        if !f.sst.contains(s) || !f.stg.contains(s) {
            return Err("ST not within SST/STG".into());
        }
    }
    for s in &f.sst {
        if !f.pr.contains(s) {
            return Err("SST not within PR".into());
        }
    }
    for s in &f.pr {
        if !f.co.contains(s) {
            return Err("PR not within CO".into());
        }
    }
    if !f.st.is_empty() {
        let mut a = f.st.clone();
        let mut b = f.sst.clone();
        let mut c = f.stg.clone();
        a.sort();
        b.sort();
        c.sort();
        if a != b || a != c {
            return Err("ST nonempty but SST/STG differ".into());
        }
    }
    if f.pr.is_empty() || f.sst.is_empty() || f.stg.is_empty() || f.co.is_empty() {
        return Err("a family that must be non-empty is empty".into());
    }
    if g.exts(Sem::ID) != vec![f.id] || g.exts(Sem::PR) != f.pr || g.exts(Sem::SST) != f.sst {
        return Err("Fams and exts disagree".into());
    }
    Ok(())
}
