//! One argumentation problem end to end: run it, and judge an answer against the reference.

use crate::oracle::{self, Fams, Sem};
use crate::queries::{kind_for, Enc, LabelMap, SolverObj, Q};
use crate::util::{guard, mask_to_vec, masks_to_vecs};
use crustabri::aa::AAFramework;
use crustabri::sat::SatSolverFactoryFn;
use crustabri::utils::LabelType;

#[derive(Clone, Debug, PartialEq)]
pub struct Answer {
    /// YES/NO for DC/DS, None for SE
    pub status: Option<bool>,
    /// Some(mask) when a set was returned (extension or certificate)
    pub set: Option<u32>,
}

/// Runs the problem on a fresh solver object. `Err` = the call unwound (panic message).
pub fn run_problem<T: LabelType>(
    af: &AAFramework<T>,
    labels: &[T],
    q: Q,
    sem: Sem,
    enc: Enc,
    a: usize,
    cert: bool,
    factory: Box<SatSolverFactoryFn>,
) -> Result<Result<Answer, String>, String> {
    let lm = LabelMap::new(af, labels);
    guard(|| {
        let mut s = SolverObj::new(af, kind_for(q, sem), enc, factory);
        let (status, ext) = match q {
            Q::SE => (None, s.se()),
            Q::DC => {
                let (b, c) = s.dc(&[&labels[a]], cert);
                (Some(b), c)
            }
            Q::DS => {
                let (b, c) = s.ds(&[&labels[a]], cert);
                (Some(b), c)
            }
        };
        match ext {
            None => Ok(Answer { status, set: None }),
            Some(e) => lm.mask(&e).map(|m| Answer { status, set: Some(m) }),
        }
    })
}

/// Judges an answer. `Err((what, message))` names the clause that failed.
pub fn check_answer(ans: &Answer, fams: &Fams, q: Q, sem: Sem, a: usize, cert: bool) -> Result<(), (String, String)> {
    let exts = fams.exts(sem);
    match q {
        Q::SE => match ans.set {
            None => {
                if !exts.is_empty() {
                    return Err(("no-extension-reported-but-one-exists".into(), format!("reference {:?}", masks_to_vecs(&exts))));
                }
            }
            Some(m) => {
                if !exts.contains(&m) {
                    return Err((
                        "not-an-extension".into(),
                        format!("returned {:?} reference {:?}", mask_to_vec(m), masks_to_vecs(&exts)),
                    ));
                }
            }
        },
        Q::DC | Q::DS => {
            let bit = 1u32 << a;
            let expected = if q == Q::DC { oracle::dc(&exts, bit) } else { oracle::ds(&exts, bit) };
            if ans.status != Some(expected) {
                return Err((
                    format!("status-got-{:?}-expected-{}", ans.status, expected),
                    format!("argument index {} reference {:?}", a, masks_to_vecs(&exts)),
                ));
            }
            if cert {
                let promised = if q == Q::DC { expected } else { !expected };
                match (promised, ans.set) {
                    (false, None) => {}
                    (false, Some(_)) => return Err(("unexpected-certificate".into(), String::new())),
                    (true, None) => return Err(("missing-certificate".into(), String::new())),
                    (true, Some(m)) => {
                        let fam = if q == Q::DC && sem == Sem::PR { fams.co.clone() } else { exts.clone() };
                        if !fam.contains(&m) {
                            return Err((
                                "certificate-not-an-extension".into(),
                                format!("certificate {:?} reference {:?}", mask_to_vec(m), masks_to_vecs(&fam)),
                            ));
                        }
                        if (q == Q::DC) != (m & bit != 0) {
                            return Err(("certificate-membership-wrong".into(), format!("certificate {:?}", mask_to_vec(m))));
                        }
                    }
                }
            } else if ans.set.is_some() {
                return Err(("certificate-without-request".into(), String::new()));
            }
        }
    }
    Ok(())
}
