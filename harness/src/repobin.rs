//! Building and running the repository's two binaries from /repo's current working tree.

use std::io::Read;
use std::path::PathBuf;
use std::process::{Command, Stdio};
use std::sync::OnceLock;
use std::time::{Duration, Instant};

pub fn verif_dir() -> PathBuf {
    PathBuf::from(std::env::var("VERIF_DIR").unwrap_or_else(|_| "/verif".to_string()))
}

pub fn repo_dir() -> PathBuf {
    PathBuf::from(std::env::var("VERIF_REPO").unwrap_or_else(|_| "/repo".to_string()))
}

static BINS: OnceLock<Result<(PathBuf, PathBuf), String>> = OnceLock::new();

/// Builds (incrementally) and returns the paths of `crustabri` and `crustabri_iccma23`.
pub fn ensure() -> Result<(PathBuf, PathBuf), String> {
    BINS.get_or_init(|| {
        let target = verif_dir().join("target").join("repo");
        let out = Command::new("cargo")
            .args(["build", "--release", "--offline", "--bins", "--manifest-path"])
            .arg(repo_dir().join("Cargo.toml"))
            .arg("--target-dir")
            .arg(&target)
            .env("CARGO_NET_OFFLINE", "true")
            .output()
            .map_err(|e| format!("cannot run cargo: {}", e))?;
        if !out.status.success() {
            let err = String::from_utf8_lossy(&out.stderr);
            let tail: Vec<&str> = err.lines().filter(|l| l.starts_with("error")).take(10).collect();
            return Err(format!("building the repository binaries failed: {}", tail.join(" | ")));
        }
        let a = target.join("release").join("crustabri");
        let b = target.join("release").join("crustabri_iccma23");
        if !a.is_file() || !b.is_file() {
            return Err("binaries not found after build".to_string());
        }
        Ok((a, b))
    })
    .clone()
}

#[derive(Clone, Debug)]
pub struct CliOut {
    /// None: killed by a signal or by the timeout
    pub code: Option<i32>,
    pub stdout: String,
    pub stderr: String,
    pub timed_out: bool,
}

pub fn run_cli(bin: &PathBuf, args: &[String], timeout: Duration) -> CliOut {
    run_cli_in(bin, args, timeout, None, None)
}

/// Same, optionally from another working directory and with a directory put in front of PATH.
pub fn run_cli_in(bin: &PathBuf, args: &[String], timeout: Duration, cwd: Option<&std::path::Path>, path_front: Option<&std::path::Path>) -> CliOut {
    let mut cmd = Command::new(bin);
    cmd.args(args).stdin(Stdio::null()).stdout(Stdio::piped()).stderr(Stdio::piped()).env("RUST_BACKTRACE", "0");
    if let Some(d) = cwd {
        cmd.current_dir(d);
    }
    if let Some(p) = path_front {
        let old = std::env::var("PATH").unwrap_or_default();
        cmd.env("PATH", format!("{}:{}", p.display(), old));
    }
    let mut child = match cmd.spawn() {
        Ok(c) => c,
        Err(e) => return CliOut { code: None, stdout: String::new(), stderr: format!("spawn failed: {}", e), timed_out: false },
    };
    let mut so = child.stdout.take().unwrap();
    let mut se = child.stderr.take().unwrap();
    let t1 = std::thread::spawn(move || {
        let mut b = Vec::new();
        let _ = so.read_to_end(&mut b);
        b
    });
    let t2 = std::thread::spawn(move || {
        let mut b = Vec::new();
        let _ = se.read_to_end(&mut b);
        b
    });
    let start = Instant::now();
    let mut timed_out = false;
    let status = loop {
        match child.try_wait() {
            Ok(Some(s)) => break Some(s),
            Ok(None) => {
                if start.elapsed() > timeout {
                    let _ = child.kill();
                    let _ = child.wait();
                    timed_out = true;
                    break None;
                }
                std::thread::sleep(Duration::from_millis(2));
            }
            Err(_) => break None,
        }
    };
    let stdout = String::from_utf8_lossy(&t1.join().unwrap_or_default()).to_string();
    let stderr = String::from_utf8_lossy(&t2.join().unwrap_or_default()).to_string();
    CliOut { code: status.and_then(|s| s.code()), stdout, stderr, timed_out }
}

/// stdout without the logger's lines (prefix `![`).
pub fn answer_lines(stdout: &str) -> Vec<String> {
    stdout.lines().filter(|l| !l.starts_with("![")).map(|l| l.to_string()).collect()
}

/// Does a line belong to the answer grammar of either format?
pub fn looks_like_answer(line: &str) -> bool {
    let l = line.trim_end_matches('\r');
    l == "YES" || l == "NO" || l == "w" || l.starts_with("w ") || (l.starts_with('[') && l.ends_with(']'))
}
