//! Orchestration of libFuzzer campaigns (cargo-fuzz, nightly) from the thorough tier.
//! A campaign is only approximately reproducible; the saved replay file is the reproducible unit.

use crate::repobin::verif_dir;
use serde_json::Value;
use std::path::PathBuf;
use std::process::{Command, Stdio};

pub struct FuzzResult {
    /// false when the nightly toolchain / cargo-fuzz cannot be used here (coverage is then lower, nothing is claimed)
    pub available: bool,
    pub execs: u64,
    pub procs: usize,
    /// replay file written by the target's in-process oracle
    pub violation: Option<(PathBuf, Value)>,
    /// a crash for which the oracle gave no verdict (sanitizer report, abort): inconclusive
    pub unexplained_crash: Option<String>,
    pub note: String,
}

pub fn run(target: &str, seeds: &[Vec<u8>], runs_per_proc: u64, procs: usize, seed: u64, max_len: usize) -> FuzzResult {
    let mut res = FuzzResult { available: false, execs: 0, procs, violation: None, unexplained_crash: None, note: String::new() };
    let vd = verif_dir();
    let harness_dir = vd.join("harness");
    let build = Command::new("cargo")
        .args(["+nightly", "fuzz", "build", "--fuzz-dir", "../fuzz", target])
        .current_dir(&harness_dir)
        .env("CARGO_NET_OFFLINE", "true")
        .env("RUST_BACKTRACE", "0")
        .output();
    let build = match build {
        Ok(b) => b,
        Err(e) => {
            res.note = format!("cargo-fuzz not runnable: {}", e);
            return res;
        }
    };
    if !build.status.success() {
        let err = String::from_utf8_lossy(&build.stderr);
        res.note = format!("cargo +nightly fuzz build failed: {}", err.lines().filter(|l| l.starts_with("error")).take(5).collect::<Vec<_>>().join(" | "));
        return res;
    }
    let bin = vd.join("target").join("harness").join("x86_64-unknown-linux-gnu").join("release").join(target);
    if !bin.is_file() {
        res.note = format!("fuzz binary not found at {}", bin.display());
        return res;
    }
    res.available = true;
    let replays = vd.join("replays").join("found");
    let _ = std::fs::create_dir_all(&replays);
    let root = vd.join("target").join("fuzz-corpus").join(format!("{}-{}", target, std::process::id()));
    let mut children = vec![];
    for k in 0..procs {
        let dir = root.join(format!("c{}", k));
        let _ = std::fs::create_dir_all(&dir);
        for (i, s) in seeds.iter().enumerate() {
            let _ = std::fs::write(dir.join(format!("seed-{:04}", i)), s);
        }
        let log = std::fs::File::create(root.join(format!("log-{}.txt", k))).expect("cannot create fuzz log");
        let child = Command::new(&bin)
            .arg(&dir)
            .arg(format!("-runs={}", runs_per_proc))
            // a campaign ends at its run count or after this many seconds, whichever comes first; stopping
            // on time only lowers the number of executions reported
            .arg(format!("-max_total_time={}", std::env::var("VERIF_FUZZ_SECS").ok().and_then(|s| s.parse::<u64>().ok()).unwrap_or(600)))
            .arg(format!("-seed={}", (seed.wrapping_mul(1000).wrapping_add(k as u64 + 1)) % 4_000_000_000 + 1))
            .arg("-len_control=0")
            .arg(format!("-max_len={}", max_len))
            .arg("-print_final_stats=1")
            .arg(format!("-artifact_prefix={}/artifact-{}-", root.display(), k))
            .env("VERIF_FUZZ_REPLAYS", &replays)
            .env("RUST_BACKTRACE", "0")
            .env("ASAN_OPTIONS", "detect_leaks=0:allocator_may_return_null=1")
            .stdin(Stdio::null())
            .stdout(Stdio::null())
            .stderr(log)
            .spawn();
        match child {
            Ok(c) => children.push((k, c)),
            Err(e) => res.note = format!("cannot start fuzz process: {}", e),
        }
    }
    for (k, mut c) in children {
        let status = c.wait();
        let log = std::fs::read_to_string(root.join(format!("log-{}.txt", k))).unwrap_or_default();
        for line in log.lines() {
            if let Some(v) = line.strip_prefix("stat::number_of_executed_units:") {
                res.execs += v.trim().parse::<u64>().unwrap_or(0);
            }
            if let Some(rest) = line.strip_prefix("FUZZ-VIOLATION ") {
                if res.violation.is_none() {
                    if let Some(p) = rest.split_whitespace().find_map(|t| t.strip_prefix("replay=")) {
                        if let Ok(txt) = std::fs::read_to_string(p) {
                            if let Ok(v) = serde_json::from_str::<Value>(&txt) {
                                res.violation = Some((PathBuf::from(p), v));
                            }
                        }
                    }
                }
            }
        }
        let ok = status.map(|s| s.success()).unwrap_or(false);
        if !ok && res.violation.is_none() && res.unexplained_crash.is_none() {
            let tail: Vec<&str> = log.lines().filter(|l| l.contains("ERROR") || l.contains("SUMMARY") || l.contains("panicked")).take(4).collect();
            res.unexplained_crash = Some(format!("fuzz process {} of target {} ended abnormally: {}", k, target, tail.join(" | ")));
        }
    }
    if res.unexplained_crash.is_none() {
        let _ = std::fs::remove_dir_all(&root);
    } else {
        res.note = format!("logs and artifacts kept in {}", root.display());
    }
    res
}
