//! C13: instance readers are total and faithful (differential against reference parsers).

use crate::engine::{CheckResult, Failure, Prop, Rec, Tier};
use crate::gen::idx;
use crate::refparse::{ref_apx, ref_iccma, RefGraph, RefOutcome};
use crate::util::guard;
use crustabri::aa::AAFramework;
use crustabri::io::{AspartixReader, Iccma23Reader, InstanceReader};
use crustabri::utils::LabelType;
use proptest::collection::vec;
use proptest::prelude::*;
use serde::{Deserialize, Serialize};
use serde_json::json;
use std::collections::BTreeSet;

#[derive(Clone, Debug, PartialEq, Eq, Hash, Serialize, Deserialize)]
pub struct ReaderCase {
    /// 0 = ICCMA'23, 1 = Aspartix
    pub fmt: u8,
    pub bytes: Vec<u8>,
}

pub struct Readers;

#[derive(Clone, Debug)]
struct Deco {
    sep: u8,
    lead: u8,
    trail: u8,
}

fn sp(k: u8) -> &'static str {
    match k % 6 {
        0 | 1 | 2 => "",
        3 => " ",
        4 => "\t",
        _ => "  ",
    }
}
fn sep1(k: u8) -> &'static str {
    match k % 4 {
        0 | 1 => " ",
        2 => "\t",
        _ => "   ",
    }
}

#[derive(Clone, Debug)]
struct Mutation {
    kind: u8,
    pos: u16,
    tok: u16,
    byte: u8,
}

fn mutation() -> impl Strategy<Value = Mutation> {
    (0u8..8, any::<u16>(), any::<u16>(), any::<u8>()).prop_map(|(kind, pos, tok, byte)| Mutation { kind, pos, tok, byte })
}

/// Filler material for long lines: ASCII identifier characters and multi-byte UTF-8 characters.
const FILL: [&str; 8] = ["a", "_", "9", "zz", "\u{e9}", "\u{2192}", "\u{1f600}", "x\u{e9}"];

const ICCMA_TOKS: [&[u8]; 30] = [
    b"p", b"af", b" ", b"\n", b"\r\n", b"1", b"2", b"3", b"0", b"-1", b"+2", b"#", b"# c\n", b"\t", b"\xff", b"\xc3\xa9",
    b"99999999999999999999", b"4", b"p af 3", b"1 2", b"\n\n", b"\0", b"\xe2\x80\xa8", b"x", b"p af", b"af p 2", b"01", b"1 2 3", b"\r", b"p aff 2",
];
const APX_TOKS: [&[u8]; 30] = [
    b"arg(", b"att(", b")", b").", b",", b"zz", b"1", b"\n", b" ", b".", b"%c\n", b"\xff", b"\xc3\xa9", b"arg(q).\n", b"att(a,q).\n", b"(",
    b"\r", b"\0", b"\xe2\x80\xa8", b"arg(a)!\n", b"a b", b"arg(a).", b"att(a,a).", b"\r\n", b"\t", b"_x", b"arg()", b"att(a)", b"ARG(a).", b"arg(a)..",
];

fn apply_mutations(mut b: Vec<u8>, muts: &[Mutation], toks: &[&[u8]]) -> Vec<u8> {
    for m in muts {
        let pos = idx(m.pos, b.len() + 1);
        match m.kind {
            0 => {
                let t = toks[idx(m.tok, toks.len())];
                for (i, x) in t.iter().enumerate() {
                    b.insert(pos + i, *x);
                }
            }
            1 => {
                if pos < b.len() {
                    b.remove(pos);
                }
            }
            2 => {
                if pos < b.len() {
                    b[pos] = m.byte;
                }
            }
            3 => b.truncate(pos),
            4 => {
                // delete a whole line
                if !b.is_empty() {
                    let p = pos.min(b.len() - 1);
                    let start = b[..p].iter().rposition(|c| *c == b'\n').map(|x| x + 1).unwrap_or(0);
                    let end = b[p..].iter().position(|c| *c == b'\n').map(|x| p + x + 1).unwrap_or(b.len());
                    b.drain(start..end);
                }
            }
            6 | 7 => {
                // lengthen a line: a run of 1..=120 filler units (ASCII or multi-byte) at one place
                let unit = FILL[(m.byte as usize) % FILL.len()].as_bytes();
                // mostly 1..=120 units; one time in 97 a run of 4-5 thousand, one time in 1009 a run of
                // 2^16 + 0..63 units (a line longer than any 64 KiB buffer)
                let reps = if m.tok % 1009 == 0 {
                    65_536 + (m.byte as usize) % 64
                } else if m.tok % 97 == 0 {
                    4_000 + (m.tok as usize) % 1_000
                } else {
                    1 + (m.tok as usize) % 120
                };
                let mut ins = Vec::with_capacity(unit.len() * reps);
                for k in 0..reps {
                    ins.extend_from_slice(unit);
                    // kind 7: shift the alignment of multi-byte characters by an ASCII byte now and then
                    if m.kind == 7 && k % 7 == (m.byte as usize) % 7 {
                        ins.push(b'b');
                    }
                }
                b.splice(pos..pos, ins);
            }
            _ => {
                // duplicate a line somewhere else
                if !b.is_empty() {
                    let p = pos.min(b.len() - 1);
                    let start = b[..p].iter().rposition(|c| *c == b'\n').map(|x| x + 1).unwrap_or(0);
                    let end = b[p..].iter().position(|c| *c == b'\n').map(|x| p + x + 1).unwrap_or(b.len());
                    let line: Vec<u8> = b[start..end].to_vec();
                    let at = idx(m.tok, b.len() + 1);
                    let at = b[..at].iter().rposition(|c| *c == b'\n').map(|x| x + 1).unwrap_or(0);
                    for (i, x) in line.iter().enumerate() {
                        b.insert(at + i, *x);
                    }
                }
            }
        }
    }
    b
}

fn deco() -> impl Strategy<Value = Deco> {
    (any::<u8>(), any::<u8>(), any::<u8>()).prop_map(|(sep, lead, trail)| Deco { sep, lead, trail })
}

/// Well-formed ICCMA'23 text with the decorations the format defines, then optional corruptions.
fn iccma_case(max_n: usize, max_muts: usize) -> BoxedStrategy<ReaderCase> {
    (
        0usize..=max_n,
        vec((any::<u16>(), any::<u16>(), deco(), 0u8..10), 0..=10),
        (deco(), 0u8..4, any::<bool>(), any::<bool>(), 0u8..3),
        vec((any::<u16>(), 0u8..3), 0..=3),
        vec(mutation(), 0..=max_muts),
        // targeted token-level corruptions of the listed ill-formedness classes
        prop_oneof![6 => Just(0u8), 1 => 1u8..=14],
        any::<u16>(),
    )
        .prop_map(|(n, atts, (hd, trailing_blank, crlf, final_nl, hdr_variant), comments, muts, targeted, tpos)| {
            let nl = if crlf { "\r\n" } else { "\n" };
            let mut lines: Vec<String> = vec![];
            let header = match hdr_variant {
                0 | 1 => format!("{}p{}af{}{}{}", sp(hd.lead), sep1(hd.sep), sep1(hd.sep.wrapping_add(1)), n, sp(hd.trail)),
                _ => format!("p af {}", n),
            };
            lines.push(header);
            for (a, b, d, dup) in &atts {
                if n == 0 {
                    break;
                }
                let l = format!("{}{}{}{}{}", sp(d.lead), idx(*a, n) + 1, sep1(d.sep), idx(*b, n) + 1, sp(d.trail));
                lines.push(l.clone());
                if *dup == 0 {
                    lines.push(l);
                }
            }
            for (p, k) in &comments {
                let at = idx(*p, lines.len() + 1);
                lines.insert(at, ["# a comment", "#", "#p af 7"][*k as usize % 3].to_string());
            }
            // targeted corruption on the line list
            let at = if lines.len() > 1 { 1 + idx(tpos, lines.len() - 1) } else { 0 };
            match targeted {
                1 => lines[0] = format!("q af {}", n),
                2 => lines[0] = format!("p af"),
                3 => lines[0] = format!("p af {} 1", n),
                4 => lines[0] = "p af x".to_string(),
                5 => {
                    lines.remove(0);
                }
                6 => lines.insert(at.max(1).min(lines.len()), format!("0 {}", n.max(1))),
                7 => lines.insert(at.max(1).min(lines.len()), format!("{} 1", n + 1)),
                8 => lines.insert(at.max(1).min(lines.len()), "-1 1".to_string()),
                13 | 14 => {
                    // an index, or the declared size, at and around the bounds of the machine integer types
                    const EDGE: [&str; 14] = [
                        "-9223372036854775808", "-9223372036854775809", "9223372036854775807", "9223372036854775808", "18446744073709551615",
                        "18446744073709551616", "4294967295", "4294967296", "-2147483648", "2147483648", "-0", "+1", "01", "1e0",
                    ];
                    let e = EDGE[tpos as usize % EDGE.len()];
                    if targeted == 13 {
                        let l = if tpos % 2 == 0 { format!("{} 1", e) } else { format!("1 {}", e) };
                        lines.insert(at.max(1).min(lines.len()), l);
                    } else {
                        lines[0] = format!("p af {}", e);
                    }
                }
                9 => lines.insert(at.max(1).min(lines.len()), "a 1".to_string()),
                10 => lines.insert(at.max(1).min(lines.len()), "1".to_string()),
                11 => lines.insert(at.max(1).min(lines.len()), "1 1 1".to_string()),
                12 => {
                    // content after a blank line
                    lines.insert(at.max(1).min(lines.len()), String::new());
                    lines.push(format!("{} {}", n.max(1), n.max(1)));
                }
                _ => {}
            }
            let mut s = lines.join(nl);
            if final_nl || trailing_blank > 0 {
                s.push_str(nl);
            }
            for _ in 0..trailing_blank.saturating_sub(1) {
                s.push('\n');
            }
            ReaderCase { fmt: 0, bytes: apply_mutations(s.into_bytes(), &muts, &ICCMA_TOKS) }
        })
        .boxed()
}

fn apx_case(max_n: usize, max_muts: usize) -> BoxedStrategy<ReaderCase> {
    // two name sets: mixed identifiers, and identifiers over {a, b, _} that are concatenations of one another
    // (whatever glues two names with a separator that is itself an identifier character collides on them)
    const NAME_SETS: [[&str; 10]; 2] = [
        ["a", "b", "c", "_x1", "A9_", "arg", "att", "a1", "_", "zZ_9"],
        ["_", "__", "a", "a_", "_a", "a_a", "a__a", "___", "a_b", "b"],
    ];
    (
        0usize..=max_n.min(NAME_SETS[0].len()),
        vec((any::<u16>(), any::<u16>(), deco(), deco(), 0u8..10), 0..=10),
        vec((deco(), 0u8..10), NAME_SETS[0].len()),
        (any::<bool>(), any::<bool>(), vec((any::<u16>(), 0u8..2), 0..=3)),
        vec(mutation(), 0..=max_muts),
        prop_oneof![6 => Just(0u8), 1 => 1u8..=9],
        any::<u16>(),
    )
        .prop_map(|(n, atts, argdeco, (crlf, final_nl, blanks), muts, targeted, tpos)| {
            let nl = if crlf { "\r\n" } else { "\n" };
            #[allow(non_snake_case)]
            let NAMES = NAME_SETS[(tpos % 3 == 0) as usize];
            let mut lines: Vec<String> = vec![];
            for i in 0..n {
                let (d, dup) = &argdeco[i];
                lines.push(format!("{}arg({}{}{}).{}", sp(d.lead), sp(d.sep), NAMES[i], sp(d.sep.wrapping_add(3)), sp(d.trail)));
                if *dup == 0 {
                    lines.push(format!("arg({}).", NAMES[idx(d.sep as u16 * 256, i + 1)]));
                }
            }
            let n_arg_lines = lines.len();
            for (a, b, d, e, dup) in &atts {
                if n == 0 {
                    break;
                }
                let l = format!(
                    "{}att({}{}{},{}{}{}).{}",
                    sp(d.lead),
                    sp(d.sep),
                    NAMES[idx(*a, n)],
                    sp(d.trail),
                    sp(e.lead),
                    NAMES[idx(*b, n)],
                    sp(e.sep),
                    sp(e.trail)
                );
                lines.push(l.clone());
                if *dup == 0 {
                    lines.push(l);
                }
            }
            for (p, k) in &blanks {
                let at = idx(*p, lines.len() + 1);
                lines.insert(at, ["", "  "][*k as usize % 2].to_string());
            }
            let at = idx(tpos, lines.len() + 1);
            match targeted {
                1 => lines.push("arg(late).".to_string()),                       // argument after attacks (if any attack)
                2 => lines.insert(at, "att(a,undeclared_x).".to_string()),        // undeclared argument
                3 => lines.insert(at, "arg(a)".to_string()),                      // missing terminator
                4 => lines.insert(at, "arg(a b).".to_string()),
                5 => lines.insert(at, "att(a).".to_string()),
                6 => lines.insert(at, "att(a,b,c).".to_string()),
                7 => lines.insert(at, "argument(a).".to_string()),
                8 => lines.insert(at, "arg(1a).".to_string()),
                9 => lines.insert(at.min(n_arg_lines), "att(a,a). att(a,a).".to_string()),
                _ => {}
            }
            let mut s = lines.join(nl);
            if final_nl {
                s.push_str(nl);
            }
            ReaderCase { fmt: 1, bytes: apply_mutations(s.into_bytes(), &muts, &APX_TOKS) }
        })
        .boxed()
}

/// Large ICCMA'23 files: hundreds to 10^5 arguments, thousands of attack lines, indices of up to six
/// digits at and around the bounds, long header and comment lines; optionally one ill-formed line late in the file.
fn iccma_large() -> BoxedStrategy<ReaderCase> {
    (
        prop_oneof![3 => 250usize..300, 2 => 1000usize..1100, 2 => 4090usize..4100, 2 => 65_530usize..65_540, 1 => 99_990usize..=100_000],
        prop_oneof![2 => 0usize..50, 2 => 4000usize..4200, 1 => 9000usize..9100],
        vec((any::<u32>(), any::<u32>(), 0u8..8), 64),
        (0u8..120, 0u16..4, any::<bool>(), any::<bool>()),
        prop_oneof![5 => Just(0u8), 1 => 1u8..=5],
    )
        .prop_map(|(n, m, pairs, (hdr_blanks, long_comments, crlf, final_nl), late_bad)| {
            let nl = if crlf { "\r\n" } else { "\n" };
            let mut s = String::with_capacity(m * 14 + 100);
            if long_comments > 0 {
                s.push('#');
                for _ in 0..(long_comments as usize * 20_000) {
                    s.push('c');
                }
                s.push_str(nl);
            }
            s.push('p');
            for _ in 0..1 + hdr_blanks as usize {
                s.push(' ');
            }
            s.push_str("af");
            for _ in 0..1 + (hdr_blanks as usize) / 3 {
                s.push('\t');
            }
            s.push_str(&n.to_string());
            s.push_str(nl);
            for k in 0..m {
                let (a, b, mode) = pairs[k % pairs.len()];
                // indices spread over the whole range, with a bias to the bounds
                let pick = |x: u32, j: usize| -> usize {
                    match (mode as usize + j) % 8 {
                        0 => 1,
                        1 => n,
                        2 => n.saturating_sub(1).max(1),
                        _ => 1 + ((x as usize).wrapping_mul(2_654_435_761).wrapping_add(k * 7919 + j)) % n,
                    }
                };
                s.push_str(&pick(a, 0).to_string());
                s.push(' ');
                s.push_str(&pick(b, 1).to_string());
                s.push_str(nl);
                if k == m / 2 && long_comments > 1 {
                    s.push_str("# a comment in the middle");
                    s.push_str(nl);
                }
            }
            match late_bad {
                1 => s.push_str(&format!("{} 1{}", n + 1, nl)),
                2 => s.push_str(&format!("0 {}{}", n, nl)),
                3 => s.push_str(&format!("1 2 3{}", nl)),
                4 => s.push_str(&format!("{}1 1{}", nl, nl)),
                5 => s.push_str(&format!("p af {}{}", n, nl)),
                _ => {}
            }
            if !final_nl && s.ends_with(nl) {
                let l = s.len() - nl.len();
                s.truncate(l);
            }
            ReaderCase { fmt: 0, bytes: s.into_bytes() }
        })
        .boxed()
}

fn soup(fmt: u8) -> BoxedStrategy<ReaderCase> {
    vec(any::<u16>(), 0..=14)
        .prop_map(move |picks| {
            let toks: &[&[u8]] = if fmt == 0 { &ICCMA_TOKS } else { &APX_TOKS };
            let mut b = vec![];
            for p in picks {
                b.extend_from_slice(toks[idx(p, toks.len())]);
            }
            ReaderCase { fmt, bytes: b }
        })
        .boxed()
}

fn raw_bytes() -> BoxedStrategy<ReaderCase> {
    (0u8..2, vec(any::<u8>(), 0..=40)).prop_map(|(fmt, bytes)| ReaderCase { fmt, bytes }).boxed()
}

pub fn observed<T: LabelType>(af: &AAFramework<T>) -> RefGraph {
    RefGraph {
        labels: af.argument_set().iter().map(|a| a.label().to_string()).collect(),
        attacks: af.iter_attacks().map(|t| (t.attacker().label().to_string(), t.attacked().label().to_string())).collect(),
    }
}

fn same_graph(got: &RefGraph, want: &RefGraph) -> Result<(), String> {
    if got.labels != want.labels {
        return Err(format!("arguments {:?}, declared {:?}", got.labels, want.labels));
    }
    let g: BTreeSet<&(String, String)> = got.attacks.iter().collect();
    let w: BTreeSet<&(String, String)> = want.attacks.iter().collect();
    if g != w {
        return Err(format!("attacks {:?}, declared {:?}", got.attacks, want.attacks));
    }
    Ok(())
}

/// Any `p <word> <number>` line declaring more than the supported size, whatever surrounds it
/// (the reader allocates on the header before it sees the rest of the file).
fn declares_huge_size(bytes: &[u8]) -> bool {
    for line in bytes.split(|b| *b == b'\n') {
        let l = String::from_utf8_lossy(line);
        let toks: Vec<&str> = l.split_whitespace().collect();
        if toks.len() >= 3 && toks[0] == "p" {
            let t = toks[2].trim_start_matches('+');
            if !t.is_empty() && t.bytes().all(|b| b.is_ascii_digit()) {
                let digits = t.trim_start_matches('0');
                if digits.len() > 6 || digits.parse::<u64>().map_or(true, |v| v > crate::refparse::MAX_DECLARED) && !digits.is_empty() {
                    return true;
                }
            }
        }
    }
    false
}

/// A reader object that, for one input in three, has already been used on ill-formed inputs (failing in the
/// argument section, in the attack section, on the header, on invalid UTF-8): reader objects are reusable,
/// whatever an earlier call left behind must not show in the next one.
pub fn used_iccma_reader(used: bool) -> Iccma23Reader {
    let r = Iccma23Reader::default();
    if used {
        let poison: [&[u8]; 4] = [b"p af 3\n1 2\nx y\n", b"p af 2\n1 2\n3 1\n", b"p af\n", b"p af 2\n1 \xff\n"];
        for p in poison {
            let _ = std::panic::catch_unwind(std::panic::AssertUnwindSafe(|| {
                let mut p = p;
                let _ = r.read(&mut p);
            }));
        }
    }
    r
}

pub fn used_aspartix_reader(used: bool) -> AspartixReader {
    let r = AspartixReader::default();
    if used {
        let poison: [&[u8]; 4] = [b"arg(stale_x).\narg(stale_y).\narg(1bad).\n", b"arg(stale_x).\natt(stale_x,\n", b"arg(stale_z).\natt(stale_z,nobody).\n", b"arg(stale_w).\narg(\xff).\n"];
        for p in poison {
            let _ = std::panic::catch_unwind(std::panic::AssertUnwindSafe(|| {
                let mut p = p;
                let _ = r.read(&mut p);
            }));
        }
    }
    r
}

/// A lazily produced input: `head`, then `n_filler` copies of `filler`, then `tail`.
struct LazyInput {
    head: Vec<u8>,
    filler: Vec<u8>,
    n_filler: usize,
    tail: Vec<u8>,
    /// (part, offset inside the part, fillers already emitted)
    pos: (u8, usize, usize),
}

impl std::io::Read for LazyInput {
    fn read(&mut self, buf: &mut [u8]) -> std::io::Result<usize> {
        loop {
            let (part, off, done) = self.pos;
            let src: &[u8] = match part {
                0 => &self.head,
                1 => {
                    if done >= self.n_filler {
                        self.pos = (2, 0, done);
                        continue;
                    }
                    &self.filler
                }
                2 => &self.tail,
                _ => return Ok(0),
            };
            if off >= src.len() {
                self.pos = match part {
                    0 => (1, 0, 0),
                    1 => (1, 0, done + 1),
                    _ => (3, 0, done),
                };
                continue;
            }
            let k = buf.len().min(src.len() - off);
            buf[..k].copy_from_slice(&src[off..off + k]);
            self.pos = (part, off + k, done);
            return Ok(k);
        }
    }
}

fn huge_stream(fmt: u8, mib: usize, n_filler: usize) -> Result<(), Failure> {
    let name = if fmt == 0 { "iccma23" } else { "aspartix" };
    let (head, filler, tail): (Vec<u8>, Vec<u8>, Vec<u8>) = if fmt == 0 {
        // a comment line whose text, cut anywhere, reads like attack lines
        let mut c: Vec<u8> = b"#".to_vec();
        c.extend(b" 2 1".iter().cycle().take(mib - 2));
        c.push(b'\n');
        (b"p af 2\n".to_vec(), c, b"1 2\n".to_vec())
    } else {
        // Aspartix has no comments: the filler is a duplicate declaration padded with blanks inside the parentheses
        let mut c = b"arg(".to_vec();
        c.extend(std::iter::repeat(b' ').take(mib - 9));
        c.extend_from_slice(b"a).\n");
        (b"arg(a).\narg(b).\n".to_vec(), c, b"att(a,b).\n".to_vec())
    };
    let mut input = LazyInput { head, filler, n_filler, tail, pos: (0, 0, 0) };
    let r = guard(move || {
        if fmt == 0 {
            Iccma23Reader::default().read(&mut input).map(|af| (af.n_arguments(), af.n_attacks())).map_err(|e| e.to_string())
        } else {
            AspartixReader::default().read(&mut input).map(|af| (af.n_arguments(), af.n_attacks())).map_err(|e| e.to_string())
        }
    });
    match r {
        Err(p) => Err(Failure::new(format!("C13/{}/panic-on-an-input-above-2^32-bytes", name), p).unshrinkable()),
        Ok(Ok((2, 1))) => Ok(()),
        Ok(other) => Err(Failure::new(
            format!("C13/{}/well-formed-input-above-2^32-bytes-not-read-as-declared", name),
            format!("{} filler lines of {} bytes between the declarations and the attack: reader returned {:?}, expected 2 arguments and 1 attack", n_filler, mib, other),
        )
        .unshrinkable()),
    }
}

/// The oracle shared with the fuzz target. Returns a class name for statistics.
pub fn check_bytes(fmt: u8, bytes: &[u8]) -> Result<&'static str, Failure> {
    let name = if fmt == 0 { "iccma23" } else { "aspartix" };
    let expected = if fmt == 0 { ref_iccma(bytes) } else { ref_apx(bytes) };
    if expected == RefOutcome::TooLarge || (fmt == 0 && declares_huge_size(bytes)) {
        return Ok("excluded-declared-size-too-large");
    }
    let data = bytes.to_vec();
    let used = bytes.len() % 3 == 0;
    let got: Result<Option<RefGraph>, String> = guard(move || {
        if fmt == 0 {
            used_iccma_reader(used).read(&mut data.as_slice()).ok().map(|af| {
                // read_arg_from_str on every declared index and around the range
                let n = af.n_arguments();
                for k in 0..=n + 1 {
                    let r = Iccma23Reader::default().read_arg_from_str(&af, &k.to_string()).map(|a| *a.label());
                    let ok = if k >= 1 && k <= n { r.as_ref().ok() == Some(&k) } else { r.is_err() };
                    if !ok {
                        panic!("read_arg_from_str({}) on a framework of {} arguments gave {:?}", k, n, r.ok());
                    }
                }
                for bad in ["", "-1", "a", "1 1", " "] {
                    if Iccma23Reader::default().read_arg_from_str(&af, bad).is_ok() {
                        panic!("read_arg_from_str({:?}) accepted", bad);
                    }
                }
                observed(&af)
            })
        } else {
            used_aspartix_reader(used).read(&mut data.as_slice()).ok().map(|af| {
                for a in af.argument_set().iter() {
                    let r = AspartixReader::default().read_arg_from_str(&af, a.label()).map(|x| x.id());
                    if r.ok() != Some(a.id()) {
                        panic!("read_arg_from_str({}) did not return the argument", a.label());
                    }
                }
                if AspartixReader::default().read_arg_from_str(&af, "no_such_argument_").is_ok() {
                    panic!("read_arg_from_str accepted an unknown label");
                }
                observed(&af)
            })
        }
    });
    let show = || {
        let t = String::from_utf8_lossy(bytes).to_string();
        if t.len() > 700 {
            format!("{} ... [{} bytes in all] ... {}", t.chars().take(300).collect::<String>(), bytes.len(), t.chars().rev().take(300).collect::<Vec<_>>().into_iter().rev().collect::<String>())
        } else {
            t
        }
    };
    let got = match got {
        Err(p) => return Err(Failure::new(format!("C13/{}/panic", name), format!("{} on input {:?}", p, show()))),
        Ok(g) => g,
    };
    match (&expected, &got) {
        (RefOutcome::Accept(want), Some(g)) => {
            same_graph(g, want).map_err(|m| Failure::new(format!("C13/{}/well-formed-file-read-as-another-framework", name), format!("{} for input {:?}", m, show())))?;
            Ok("accept")
        }
        (RefOutcome::Accept(_), None) => Err(Failure::new(format!("C13/{}/well-formed-file-rejected", name), format!("input {:?}", show()))),
        (RefOutcome::Reject(_), None) => Ok("reject"),
        (RefOutcome::Reject(why), Some(g)) => Err(Failure::new(
            format!("C13/{}/ill-formed-file-accepted/{}", name, why.replace(' ', "-")),
            format!("read as {:?}; input {:?}", g, show()),
        )),
        (RefOutcome::Unspecified(..), None) => Ok("unspecified"),
        (RefOutcome::Unspecified(_, None), Some(_)) => Ok("unspecified"),
        (RefOutcome::Unspecified(why, Some(want)), Some(g)) => {
            same_graph(g, want).map_err(|m| {
                Failure::new(format!("C13/{}/unspecified-input-read-as-a-different-framework/{}", name, why.replace(' ', "-")), format!("{} for input {:?}", m, show()))
            })?;
            Ok("unspecified")
        }
        (RefOutcome::TooLarge, _) => Ok("excluded-declared-size-too-large"),
    }
}

impl Prop for Readers {
    type Case = ReaderCase;
    fn id(&self) -> &'static str {
        "C13"
    }
    fn rule(&self) -> String {
        "Byte strings for both readers from five generators: (o) one file in 3000 is a LARGE ICCMA'23 file (250 to 100000 arguments, up to 9000 attack lines with indices at and around the bounds, header with up to 120 blanks, comment lines of up to 60 KB, optionally one ill-formed line at the very end); (i) grammar-based well-formed files with the decorations the formats define (ICCMA'23: # comment lines, trailing blank lines, CRLF, missing final newline, surrounding/multiple blanks and tabs, duplicate attack lines; Aspartix: blank lines, blanks around identifiers, duplicate declarations, CRLF, identifiers over [_A-Za-z][_A-Za-z0-9]* incl. 'arg', 'att', '_'); (ii) targeted token-level corruptions of the listed ill-formedness classes (header word/arity/number, missing header, index 0 / n+1 / negative / non-numeric, 1 or 3 tokens, content after a blank line, undeclared argument, argument after attack, missing terminator, wrong arity); (iii) byte-level mutations (insert token, delete, replace, truncate, drop line, duplicate line, lengthen a line by up to 120 (rarely 4-5 thousand, or 2^16 and a few) ASCII or multi-byte UTF-8 filler units) and token soup; (iv) raw random bytes incl. invalid UTF-8 and NUL. Oracle: no panic; tri-state reference parsers (Accept => Ok with exactly the declared labels in order and the declared attack set; Reject => Err; Unspecified => Err or the natural reading); read_arg_from_str on every label and out-of-range values. Declared sizes above 10^5 are excluded and counted. Non-trivial: a well-formed file with >=1 decoration and >=1 attack, or an input the reference rejects; distinct = (format, bytes).".into()
    }
    fn assumptions(&self) -> Vec<String> {
        vec![
            "the two reference parsers (refparse.rs) and their list of unspecified inputs (DESIGN.md 3.5)".into(),
            "headers declaring more than 10^5 arguments are outside 'fits in memory'".into(),
        ]
    }
    fn strategy(&self, tier: Tier) -> BoxedStrategy<ReaderCase> {
        let n = tier.pick(6, 9);
        prop_oneof![
            // one file in ~3000 is large (up to 100000 arguments, up to ~150 KB)
            1 => iccma_large(),
            900 => iccma_case(n, 0),
            900 => apx_case(n, 0),
            420 => iccma_case(n, 3),
            420 => apx_case(n, 3),
            120 => soup(0),
            120 => soup(1),
            120 => raw_bytes(),
        ]
        .boxed()
    }
    fn n_cases(&self, tier: Tier) -> u32 {
        tier.pick(5_000_000, 60_000_000)
    }
    fn extra_phase(&self, tier: Tier, seed: u64, rec: &mut Rec) -> Result<(), (ReaderCase, Failure)> {
        // One streamed input of more than 2^32 bytes per format (a two-argument framework between 4100
        // comment / blank-padded lines of 1 MiB): byte counters of 32 bits. The stream is produced lazily, the
        // input is well-formed, so the reader must return exactly that framework. (The case cannot be stored as a
        // replay file; a failure is reported with an empty case and this description.)
        // (the Aspartix reader matches every line against a pattern: 4 GiB take it two minutes, thorough tier only)
        for fmt in 0..(if tier == Tier::Thorough { 2u8 } else { 1u8 }) {
            if let Err(f) = huge_stream(fmt, 1 << 20, 4_100) {
                return Err((ReaderCase { fmt, bytes: vec![] }, f));
            }
            rec.eval();
            rec.class("streamed-input-above-2^32-bytes");
        }
        // ICCMA only (the Aspartix reader needs minutes for one such line): two comment lines of 2^27 + 12 345 bytes
        // whose text would read as attacks if a reader handed it on in pieces
        if let Err(f) = huge_stream(0, (1 << 27) + 12_345, 2).map_err(|f| Failure { signature: f.signature.replace("input-above-2^32-bytes", "input-with-a-line-above-2^27-bytes"), ..f }) {
            return Err((ReaderCase { fmt: 0, bytes: vec![] }, f));
        }
        rec.eval();
        rec.class("streamed-input-with-a-comment-line-above-2^27-bytes");
        // corpus: a few well-formed and corrupted files from the grammar generators, reader selector byte first
        let strat = prop_oneof![iccma_case(6, 0), apx_case(6, 0), iccma_case(6, 2), apx_case(6, 2)].boxed();
        let seeds: Vec<Vec<u8>> = (0..24)
            .map(|k| {
                let c = crate::engine::sample_strategy(&strat, seed, "C13-corpus", k);
                let mut b = vec![c.fmt];
                b.extend_from_slice(&c.bytes);
                b
            })
            .collect();
        crate::fuzzphase::fuzz_phase::<ReaderCase>("readers", tier, seed, rec, seeds, 1_500_000, 400)
    }
    fn run(&self, case: &ReaderCase, rec: &mut Rec) -> CheckResult {
        rec.eval();
        let class = check_bytes(case.fmt, &case.bytes)?;
        let f = if case.fmt == 0 { "iccma23" } else { "aspartix" };
        rec.class(&format!("{}-{}", f, class));
        if case.bytes.len() > 20_000 {
            rec.class(&format!("large-file-{}", class));
        }
        if class == "excluded-declared-size-too-large" {
            rec.count("excluded", 1);
        }
        let text = String::from_utf8_lossy(&case.bytes);
        let decorated = text.contains('#') || text.contains("\r\n") || text.contains("  ") || text.contains('\t') || text.contains("\n\n") || !text.ends_with('\n');
        let has_attack = if case.fmt == 0 { text.lines().filter(|l| !l.starts_with('#')).count() >= 2 } else { text.contains("att(") };
        let nt = (class == "accept" && decorated && has_attack) || class == "reject";
        if nt && rec.nontrivial(case) {
            if case.bytes.len() <= 2_000 {
                rec.sample_sized(case.bytes.len(), || json!({"format": f, "input": text, "reference": class}));
            }
        }
        Ok(())
    }
}
