//! Exact reference answers on LARGE frameworks: a disjoint union of small components has, under all
//! seven semantics, exactly the products of the components' extensions, so brute force per component
//! (<= 8 arguments each) decides every problem on frameworks of 20-150 arguments. The arguments of
//! different components are interleaved in declaration (hence id) order.

use crate::checks::statics::Which;
use crate::engine::{CheckResult, Failure, Rec};
use crate::gen::{idx, AbsGraph};
use crate::oracle::{Fams, Sem, ALL_SEMS, G};
use crate::queries::{encodings_for, kind_for, Enc, Ext, SolverObj, Q};
use crate::satwrap::{self, Shared};
use crate::util::guard;
use crustabri::aa::AAFramework;
use crustabri::io::{AspartixReader, Iccma23Reader, InstanceReader};
use crustabri::utils::LabelType;
use serde::{Deserialize, Serialize};
use serde_json::json;

#[derive(Clone, Debug, PartialEq, Eq, Hash, Serialize, Deserialize)]
pub struct CompositeCase {
    pub comps: Vec<AbsGraph>,
    /// keys deciding the interleaved declaration order of all arguments
    pub order_keys: Vec<u16>,
    pub apx: bool,
    pub queried: Vec<u16>,
    pub enc_pick: u8,
    /// repeat some attack lines (ICCMA keeps them as duplicates)
    pub dup: Vec<u16>,
    /// 0: plain disjoint union. Otherwise two more arguments u -> h are added and h attacks one argument of
    /// every component: ONE connected component of 20-200 arguments. h is defeated by the grounded extension,
    /// so for every semantics whose extensions are complete (all but STG) the answers are those of the union.
    #[serde(default)]
    pub hub: u8,
    /// further components with closed-form extensions, (kind, size): 0 directed even cycle, 1 directed odd
    /// cycle, 2 chain, 3 symmetric clique. Sizes up to 60: single connected components far beyond brute force.
    #[serde(default)]
    pub closed: Vec<(u8, u8)>,
    /// Non-empty (and hub == 0): one more argument x is added that attacks nothing and is attacked by a set
    /// of arguments of EVERY component, (mode, pick) per component, cycled: ONE connected component whose
    /// extensions are still the products of the components' extensions, with x decided by a rule (see
    /// `Reference::x_in`). mode 0: an arbitrary non-empty set of attackers; 1: the arguments attacked by one
    /// chosen preferred extension; 2: the complement of one chosen stage (or preferred) extension. With modes
    /// 1 and 2 x belongs to very few of the (possibly thousands of) product extensions.
    #[serde(default)]
    pub gate: Vec<(u8, u16)>,
}

impl CompositeCase {
    pub fn gated(&self) -> bool {
        self.hub == 0 && !self.gate.is_empty()
    }
}

/// The graph of a closed-form component.
pub fn closed_graph(kind: u8, size: u8) -> AbsGraph {
    let (kind, n) = closed_norm(kind, size);
    let n8 = n as u8;
    let mut att = vec![];
    match kind {
        0 | 1 => {
            for i in 0..n8 {
                att.push((i, (i + 1) % n8));
            }
        }
        2 => {
            for i in 1..n8 {
                att.push((i - 1, i));
            }
        }
        _ => {
            for i in 0..n8 {
                for j in 0..n8 {
                    if i != j {
                        att.push((i, j));
                    }
                }
            }
        }
    }
    AbsGraph { n, att }
}

/// Normalises (kind, size): even cycles get an even length >= 2, odd cycles an odd length >= 3, cliques <= 24.
fn closed_norm(kind: u8, size: u8) -> (u8, usize) {
    let k = kind % 4;
    let s = size as usize;
    let n = match k {
        0 => (2 + s % 59) & !1usize,
        1 => (3 + s % 57) | 1,
        2 => 1 + s % 60,
        _ => 2 + s % 23,
    };
    (k, n.max(if k == 0 { 2 } else { 1 }))
}

/// Closed-form extension families as 64-bit masks; None for a family that is not claimed (STG of odd cycles).
fn closed_exts(kind: u8, size: u8, sem: Sem) -> Option<Vec<u64>> {
    let (k, n) = closed_norm(kind, size);
    let evens: u64 = (0..n).filter(|i| i % 2 == 0).fold(0, |m, i| m | (1u64 << i));
    let odds: u64 = (0..n).filter(|i| i % 2 == 1).fold(0, |m, i| m | (1u64 << i));
    Some(match k {
        // directed even cycle: admissible sets are the empty set and the two parity classes
        0 => match sem {
            Sem::GR | Sem::ID => vec![0],
            Sem::CO => vec![0, evens, odds],
            _ => vec![evens, odds],
        },
        // directed odd cycle: only the empty set is admissible; no stable extension; stage not claimed
        1 => match sem {
            Sem::ST => vec![],
            Sem::STG => return None,
            _ => vec![0],
        },
        // chain: acyclic, the grounded extension (even positions) is the unique extension of every semantics
        2 => vec![evens],
        // symmetric clique: the singletons are the stable extensions; the empty set is complete as well
        _ => match sem {
            Sem::GR | Sem::ID => vec![0],
            Sem::CO => std::iter::once(0u64).chain((0..n).map(|i| 1u64 << i)).collect(),
            _ => (0..n).map(|i| 1u64 << i).collect(),
        },
    })
}

pub fn all_comps(case: &CompositeCase) -> Vec<AbsGraph> {
    let mut v = case.comps.clone();
    for (k, sz) in &case.closed {
        v.push(closed_graph(*k, *sz));
    }
    if case.hub > 0 {
        v.push(AbsGraph { n: 2, att: vec![(0, 1)] });
    }
    if case.gated() {
        v.push(AbsGraph { n: 1, att: vec![] });
    }
    v
}

pub struct Layout {
    pub n: usize,
    /// component of each node and its local index
    pub comp_of: Vec<(usize, usize)>,
    pub offs: Vec<usize>,
    /// declaration rank of each node
    pub rank: Vec<usize>,
}

pub fn layout(case: &CompositeCase) -> Layout {
    let mut comp_of = vec![];
    let mut offs = vec![];
    for (c, g) in all_comps(case).iter().enumerate() {
        offs.push(comp_of.len());
        for l in 0..g.n {
            comp_of.push((c, l));
        }
    }
    let n = comp_of.len();
    let mut order: Vec<usize> = (0..n).collect();
    order.sort_by_key(|i| (case.order_keys.get(*i % case.order_keys.len().max(1)).copied().unwrap_or(0) as usize * 131 + *i * 7919) % 65_521);
    let mut rank = vec![0; n];
    for (r, node) in order.iter().enumerate() {
        rank[*node] = r;
    }
    Layout { n, comp_of, offs, rank }
}

pub fn label_of(case: &CompositeCase, lay: &Layout, node: usize) -> String {
    if case.apx {
        format!("x{}_{}", lay.rank[node], lay.comp_of[node].0)
    } else {
        (lay.rank[node] + 1).to_string()
    }
}

/// All attacks of the assembled framework as (node, node), hub attacks included, without the repeats.
pub fn attack_nodes(case: &CompositeCase) -> Vec<(usize, usize)> {
    let lay = layout(case);
    let comps = all_comps(case);
    let mut lines = vec![];
    for (c, g) in comps.iter().enumerate() {
        for (a, b) in &g.att {
            lines.push((lay.offs[c] + *a as usize, lay.offs[c] + *b as usize));
        }
    }
    if case.hub > 0 {
        let h = lay.offs[comps.len() - 1] + 1;
        for (c, g) in comps.iter().enumerate().take(comps.len() - 1) {
            if g.n > 0 {
                lines.push((h, lay.offs[c] + (case.hub as usize * 7 + c * 3) % g.n));
            }
        }
    }
    if case.gated() {
        let x = lay.offs[comps.len() - 1];
        for (c, m) in gate_attackers(case).iter().enumerate() {
            for l in 0..comps[c].n {
                if m & (1u64 << l) != 0 {
                    lines.push((lay.offs[c] + l, x));
                }
            }
        }
    }
    lines
}

/// The arguments attacked by a set, inside one component.
fn targets_in(g: &AbsGraph, set: u64) -> u64 {
    g.att.iter().filter(|(a, _)| set & (1u64 << *a) != 0).fold(0u64, |m, (_, b)| m | (1u64 << *b))
}

/// Per real component, the mask of the attackers of the gate argument (empty without a gate).
pub fn gate_attackers(case: &CompositeCase) -> Vec<u64> {
    if !case.gated() {
        return vec![];
    }
    let comps = all_comps(case);
    let fams = component_fams(case);
    let mut out = vec![];
    for (c, f) in fams.iter().enumerate() {
        let g = &comps[c];
        let full: u64 = if g.n >= 64 { u64::MAX } else { (1u64 << g.n) - 1 };
        let (mode, pick) = case.gate[c % case.gate.len()];
        let pr = f.exts(Sem::PR);
        let mut m = match mode % 3 {
            0 => {
                let mut z = (pick as u64 + 1).wrapping_mul(0x9E37_79B9_7F4A_7C15) ^ (c as u64).wrapping_mul(0xD6E8_FEB8_6659_FD93);
                z ^= z >> 29;
                z = z.wrapping_mul(0xBF58_476D_1CE4_E5B9);
                z ^= z >> 32;
                z & full
            }
            1 => targets_in(g, pr[idx(pick, pr.len())]),
            _ => {
                let fam = if f.knows(Sem::STG) { f.exts(Sem::STG) } else { pr.clone() };
                full & !fam[idx(pick, fam.len())]
            }
        };
        if m == 0 && g.n > 0 {
            m = 1u64 << idx(pick, g.n);
        }
        out.push(m);
    }
    out
}

pub fn text(case: &CompositeCase) -> String {
    let lay = layout(case);
    let mut lines: Vec<(usize, usize)> = attack_nodes(case);
    for d in &case.dup {
        if !lines.is_empty() {
            let x = lines[idx(*d, lines.len())];
            lines.insert(idx(d.wrapping_mul(31), lines.len() + 1), x);
        }
    }
    let mut by_rank: Vec<usize> = (0..lay.n).collect();
    by_rank.sort_by_key(|i| lay.rank[*i]);
    let mut s = String::new();
    if case.apx {
        for i in by_rank {
            s.push_str(&format!("arg({}).\n", label_of(case, &lay, i)));
        }
        for (a, b) in lines {
            s.push_str(&format!("att({},{}).\n", label_of(case, &lay, a), label_of(case, &lay, b)));
        }
    } else {
        s.push_str(&format!("p af {}\n", lay.n));
        for (a, b) in lines {
            s.push_str(&format!("{} {}\n", label_of(case, &lay, a), label_of(case, &lay, b)));
        }
    }
    s
}

/// Extension families of one component, as 64-bit masks over its local indices.
pub struct CompFams {
    by_sem: Vec<Option<Vec<u64>>>,
    pub co: Vec<u64>,
}

impl CompFams {
    pub fn exts(&self, sem: Sem) -> Vec<u64> {
        self.by_sem[ALL_SEMS.iter().position(|s| *s == sem).unwrap()].clone().expect("family not claimed for this component")
    }
    fn knows(&self, sem: Sem) -> bool {
        self.by_sem[ALL_SEMS.iter().position(|s| *s == sem).unwrap()].is_some()
    }
}

pub struct Reference {
    pub fams: Vec<CompFams>,
    /// does the whole framework have an extension under ST?
    pub has_stable: bool,
    /// with a gate: the attackers of x per real component and the real components' graphs
    pub gate_att: Vec<u64>,
    pub graphs: Vec<AbsGraph>,
    pub is_gated: bool,
}

impl Reference {
    pub fn gated(&self) -> bool {
        self.is_gated
    }
    /// Index of the gate argument's own one-argument component.
    pub fn x_comp(&self) -> usize {
        self.fams.len() - 1
    }
    /// Does the choice `e` in component `c` allow x in the extension? x attacks nothing, so the rest of the
    /// framework is unaffected by it. Under the admissibility-based semantics (complete extensions) x is in
    /// exactly when it is defended: each of its attackers is attacked by the set. Under stage semantics x is
    /// in exactly when none of its attackers is: a conflict-free set without attacker of x and without x is
    /// strictly dominated (in range) by the same set plus x.
    pub fn allows_x(&self, sem: Sem, c: usize, e: u64) -> bool {
        if sem == Sem::STG {
            self.gate_att[c] & e == 0
        } else {
            self.gate_att[c] & !targets_in(&self.graphs[c], e) == 0
        }
    }
    /// x's membership in the product extension made of `masks` (one per real component).
    pub fn x_in(&self, sem: Sem, masks: &[u64]) -> bool {
        (0..self.gate_att.len()).all(|c| self.allows_x(sem, c, masks[c]))
    }
    /// Number of product extensions (saturating): what an enumeration may have to walk through.
    pub fn n_products(&self, sem: Sem) -> usize {
        let real = if self.gated() { self.fams.len() - 1 } else { self.fams.len() };
        self.fams[..real].iter().filter(|f| f.knows(sem)).fold(1usize, |p, f| p.saturating_mul(f.exts(sem).len().max(1)))
    }
}

/// Families of the real components (hub and gate excluded).
fn component_fams(case: &CompositeCase) -> Vec<CompFams> {
    let mut fams: Vec<CompFams> = vec![];
    for g in &case.comps {
        let f = Fams::new(&G::new(g.n, &g.att_usize()));
        let by_sem = ALL_SEMS.iter().map(|s| Some(f.exts(*s).iter().map(|m| *m as u64).collect())).collect();
        fams.push(CompFams { by_sem, co: f.co.iter().map(|m| *m as u64).collect() });
    }
    for (k, sz) in &case.closed {
        let by_sem: Vec<Option<Vec<u64>>> = ALL_SEMS.iter().map(|s| closed_exts(*k, *sz, *s)).collect();
        let co = closed_exts(*k, *sz, Sem::CO).unwrap();
        fams.push(CompFams { by_sem, co });
    }
    fams
}

pub fn reference(case: &CompositeCase) -> Reference {
    let mut fams: Vec<CompFams> = component_fams(case);
    if case.hub > 0 {
        // u -> h : {u} is the unique extension of every semantics
        fams.push(CompFams { by_sem: ALL_SEMS.iter().map(|_| Some(vec![1u64])).collect(), co: vec![1] });
    }
    let has_stable = fams.iter().all(|f| !f.exts(Sem::ST).is_empty());
    let gate_att = gate_attackers(case);
    let mut graphs = vec![];
    if case.gated() {
        graphs = all_comps(case);
        graphs.pop();
        // x's own component: both memberships pass the per-component test, the rule decides
        fams.push(CompFams { by_sem: ALL_SEMS.iter().map(|_| Some(vec![0u64, 1])).collect(), co: vec![0, 1] });
    }
    Reference { fams, has_stable, gate_att, graphs, is_gated: case.gated() }
}

/// The semantics this case can be judged under: STG is skipped with the hub and with odd cycles.
pub fn judged_sems(case: &CompositeCase, r: &Reference) -> Vec<Sem> {
    ALL_SEMS
        .iter()
        .copied()
        .filter(|s| (case.hub == 0 || *s != Sem::STG) && r.fams.iter().all(|f| f.knows(*s)))
        // with a gate the semi-stable extensions are the products only when a stable extension exists
        // (then SST = ST); enumerations over more than GATE_PRODUCT_LIMIT extensions of one connected
        // component are legitimately long and are left out
        .filter(|s| !r.gated() || *s != Sem::SST || r.has_stable)
        .filter(|s| !r.gated() || matches!(s, Sem::GR | Sem::CO | Sem::ST) || r.n_products(*s) <= GATE_PRODUCT_LIMIT)
        .collect()
}

pub const GATE_PRODUCT_LIMIT: usize = 3_000;

/// Projects a returned set on every component; Err if a member is foreign or listed twice.
fn project<T: LabelType>(ext: &Ext<T>, af: &AAFramework<T>, index: &std::collections::HashMap<String, usize>, lay: &Layout, ncomp: usize) -> Result<Vec<u64>, String> {
    let mut masks = vec![0u64; ncomp];
    for m in ext {
        let node = *index.get(&m.label.to_string()).ok_or_else(|| format!("member {} is not an argument of the framework", m.label))?;
        let own = af.argument_set().get_argument(&m.label).map(|a| a.id()).ok();
        if own != Some(m.id) {
            return Err(format!("member {} has id {} but the framework's argument has id {:?}", m.label, m.id, own));
        }
        let (c, l) = lay.comp_of[node];
        if masks[c] & (1u64 << l) != 0 {
            return Err(format!("member {} listed twice", m.label));
        }
        masks[c] |= 1u64 << l;
    }
    Ok(masks)
}

fn run_generic<T: LabelType>(which: Which, case: &CompositeCase, af: &AAFramework<T>, mk_label: &dyn Fn(usize) -> T, rec: &mut Rec) -> CheckResult {
    let lay = layout(case);
    let r = reference(case);
    let ncomp = all_comps(case).len();
    // with the hub, stage semantics (conflict-free based) is not compositional: skipped; so is it with odd cycles
    let sems: Vec<Sem> = judged_sems(case, &r);
    let index: std::collections::HashMap<String, usize> = (0..lay.n).map(|i| (label_of(case, &lay, i), i)).collect();
    let id = match which {
        Which::C01 => "C01",
        Which::C02 => "C02",
        Which::C03 => "C03",
        Which::C04 => "C04",
    };
    let queried: Vec<usize> = {
        let mut q: Vec<usize> = case.queried.iter().map(|x| idx(*x, lay.n)).collect();
        if r.gated() {
            q.push(lay.offs[r.x_comp()]);
        }
        q.sort();
        q.dedup();
        q
    };
    let pick = |q: Q, sem: Sem, k: usize| -> Enc {
        let encs = encodings_for(q, sem);
        let e = encs[(case.enc_pick as usize + k) % encs.len()];
        // the exponential encoder is exercised on small frameworks; here it could take minutes
        if e == Enc::ExpCo {
            Enc::Hybrid
        } else {
            e
        }
    };
    let fam_of = |sem: Sem, c: usize| -> Vec<u64> { r.fams[c].exts(sem) };
    let exists = |sem: Sem| sem != Sem::ST || r.has_stable;
    let ctx = || format!("{} arguments in {} components:\n{}", lay.n, ncomp, text(case));
    if which == Which::C01 {
        for (k, sem) in sems.iter().enumerate() {
            let sem = *sem;
            let enc = pick(Q::SE, sem, k);
            rec.eval();
            let sig = format!("C01/composite/SE-{}/{}", sem.name(), enc.name());
            let shared = Shared::new(satwrap::DEFAULT_CAP);
            let got = guard(|| SolverObj::new(af, kind_for(Q::SE, sem), enc, satwrap::factory(&shared)).se()).map_err(|p| Failure::new(format!("{}/panic", sig), p))?;
            match got {
                None => {
                    if exists(sem) {
                        return Err(Failure::new(format!("{}/no-extension-reported-but-one-exists", sig), ctx()));
                    }
                }
                Some(e) => {
                    if !exists(sem) {
                        return Err(Failure::new(format!("{}/extension-reported-but-none-exists", sig), ctx()));
                    }
                    let masks = project(&e, af, &index, &lay, ncomp).map_err(|m| Failure::new(format!("{}/foreign-or-duplicate-member", sig), m))?;
                    for c in 0..ncomp {
                        if !fam_of(sem, c).contains(&masks[c]) {
                            return Err(Failure::new(
                                format!("{}/not-an-extension", sig),
                                format!("on component {} the returned set is {:?}, its extensions are {:?}; {}", c, m64(masks[c]), fam_of(sem, c).iter().take(12).map(|x| m64(*x)).collect::<Vec<_>>(), ctx()),
                            ));
                        }
                    }
                    if r.gated() && (masks[r.x_comp()] == 1) != r.x_in(sem, &masks) {
                        return Err(Failure::new(
                            format!("{}/not-an-extension/gate-argument-wrongly-{}", sig, if masks[r.x_comp()] == 1 { "in" } else { "out" }),
                            ctx(),
                        ));
                    }
                }
            }
        }
        return Ok(());
    }
    let qs: Vec<Q> = match which {
        Which::C02 => vec![Q::DC],
        Which::C03 => vec![Q::DS],
        _ => vec![Q::DC, Q::DS],
    };
    for q in qs {
        for (k, sem) in sems.iter().enumerate() {
            let sem = *sem;
            let enc = pick(q, sem, k);
            for &a in &queried {
                let (c, l) = lay.comp_of[a];
                let bit = 1u64 << l;
                let fam = fam_of(sem, c);
                let expected = if r.gated() && c == r.x_comp() {
                    // x is in a product extension exactly when every component's choice allows it
                    let real = r.x_comp();
                    if q == Q::DC {
                        exists(sem) && (0..real).all(|cc| fam_of(sem, cc).iter().any(|e| r.allows_x(sem, cc, *e)))
                    } else {
                        !exists(sem) || (0..real).all(|cc| fam_of(sem, cc).iter().all(|e| r.allows_x(sem, cc, *e)))
                    }
                } else if q == Q::DC {
                    exists(sem) && fam.iter().any(|e| e & bit != 0)
                } else {
                    !exists(sem) || fam.iter().all(|e| e & bit != 0)
                };
                if r.gated() && c == r.x_comp() {
                    rec.class(&format!("gate-argument-{}-{}-{}", q.name(), if expected { "yes" } else { "no" }, if r.n_products(sem) >= 200 { "among-200+-extensions" } else { "among-fewer-extensions" }));
                }
                let lab = mk_label(a);
                let certs: Vec<bool> = match which {
                    Which::C04 => vec![true],
                    _ => vec![false, true],
                };
                for cert in certs {
                    rec.eval();
                    let sig = format!("{}/composite/{}-{}/{}/{}", id, q.name(), sem.name(), enc.name(), if cert { "with-certificate" } else { "plain" });
                    let shared = Shared::new(satwrap::DEFAULT_CAP);
                    let (status, certificate) = guard(|| {
                        let mut s = SolverObj::new(af, kind_for(q, sem), enc, satwrap::factory(&shared));
                        if q == Q::DC {
                            s.dc(&[&lab], cert)
                        } else {
                            s.ds(&[&lab], cert)
                        }
                    })
                    .map_err(|p| Failure::new(format!("{}/panic", sig), p))?;
                    if status != expected {
                        return Err(Failure::new(
                            format!("{}/got-{}-expected-{}", sig, status, expected),
                            format!("argument {} (component {}, local {}); {}", lab, c, l, ctx()),
                        ));
                    }
                    if which != Which::C04 {
                        continue;
                    }
                    let promised = if q == Q::DC { status } else { !status };
                    match (promised, certificate) {
                        (false, None) => {}
                        (false, Some(_)) => return Err(Failure::new(format!("{}/unexpected-certificate", sig), ctx())),
                        (true, None) => return Err(Failure::new(format!("{}/missing-certificate", sig), ctx())),
                        (true, Some(e)) => {
                            let masks = project(&e, af, &index, &lay, ncomp).map_err(|m| Failure::new(format!("{}/foreign-or-duplicate-member", sig), format!("{}; {}", m, ctx())))?;
                            for cc in 0..ncomp {
                                let wf = if q == Q::DC && sem == Sem::PR { r.fams[cc].co.clone() } else { fam_of(sem, cc) };
                                if !wf.contains(&masks[cc]) {
                                    return Err(Failure::new(
                                        format!("{}/certificate-not-an-extension", sig),
                                        format!("argument {}: on component {} the certificate is {:?}; {}", lab, cc, m64(masks[cc]), ctx()),
                                    ));
                                }
                            }
                            if (q == Q::DC) != (masks[c] & bit != 0) {
                                return Err(Failure::new(format!("{}/certificate-membership-wrong", sig), format!("argument {}; {}", lab, ctx())));
                            }
                            // the witness of DC-PR is a complete extension: same rule for x
                            if r.gated() && (masks[r.x_comp()] == 1) != r.x_in(sem, &masks) {
                                return Err(Failure::new(
                                    format!("{}/certificate-not-an-extension/gate-argument-wrongly-{}", sig, if masks[r.x_comp()] == 1 { "in" } else { "out" }),
                                    format!("argument {}; {}", lab, ctx()),
                                ));
                            }
                        }
                    }
                }
            }
        }
    }
    Ok(())
}

fn m64(m: u64) -> Vec<usize> {
    (0..64).filter(|i| m & (1u64 << i) != 0).collect()
}

pub fn run(which: Which, case: &CompositeCase, rec: &mut Rec) -> CheckResult {
    let lay = layout(case);
    if lay.n == 0 {
        return Ok(());
    }
    let t = text(case);
    let (_scope, chosen) = satwrap::ChoiceScope::for_case(case);
    if chosen {
        rec.class("composite-with-sat-backend-returning-chosen-models");
    }
    rec.class(&format!("composite-n-{:03}+", (lay.n / 25) * 25));
    rec.class(&format!("composite-components-{:02}+", (case.comps.len() / 5) * 5));
    if case.hub > 0 {
        rec.class("composite-single-connected-component-through-defeated-hub");
    }
    if case.gated() {
        rec.class("composite-single-connected-component-through-gate-argument");
    }
    for (k, sz) in &case.closed {
        let (k, n) = closed_norm(*k, *sz);
        rec.class(&format!("closed-form-component-{}-n{:02}+", ["even-cycle", "odd-cycle", "chain", "clique"][k as usize], (n / 20) * 20));
    }
    if rec.nontrivial(&serde_json::to_string(case).unwrap_or_default()) {
        rec.sample(|| json!({"composite_framework_arguments": lay.n, "components": case.comps.len(), "format": if case.apx {"aspartix"} else {"iccma23"}, "text_head": t.chars().take(120).collect::<String>()}));
    }
    let id = match which {
        Which::C01 => "C01",
        Which::C02 => "C02",
        Which::C03 => "C03",
        Which::C04 => "C04",
    };
    if case.apx {
        let af = AspartixReader::default().read(&mut t.as_bytes()).map_err(|e| Failure::new(format!("{}/composite/reader-rejected-generated-file", id), e.to_string()))?;
        let c2 = case.clone();
        let lay2 = layout(case);
        run_generic(which, case, &af, &move |i| label_of(&c2, &lay2, i), rec)
    } else {
        let af = Iccma23Reader::default().read(&mut t.as_bytes()).map_err(|e| Failure::new(format!("{}/composite/reader-rejected-generated-file", id), e.to_string()))?;
        let lay2 = layout(case);
        run_generic(which, case, &af, &move |i| lay2.rank[i] + 1, rec)
    }
}


/// C07 on composite frameworks: a list of 1-3 arguments (possibly repeated, possibly in different
/// components). Credulous: some product extension meets the list iff every component has an extension and
/// some component accepts one of its listed arguments credulously. Skeptical: every product extension meets
/// the list iff some component has no extension, or in some component every extension contains a listed argument.
pub fn run_lists(case: &CompositeCase, rec: &mut Rec) -> CheckResult {
    let lay = layout(case);
    if lay.n == 0 {
        return Ok(());
    }
    let t = text(case);
    let (_scope, chosen) = satwrap::ChoiceScope::for_case(case);
    if chosen {
        rec.class("composite-with-sat-backend-returning-chosen-models");
    }
    rec.class(&format!("composite-n-{:03}+", (lay.n / 25) * 25));
    if case.apx {
        let af = AspartixReader::default().read(&mut t.as_bytes()).map_err(|e| Failure::new("C07/composite/reader-rejected-generated-file", e.to_string()))?;
        let c2 = case.clone();
        let lay2 = layout(case);
        lists_generic(case, &af, &move |i| label_of(&c2, &lay2, i), rec)
    } else {
        let af = Iccma23Reader::default().read(&mut t.as_bytes()).map_err(|e| Failure::new("C07/composite/reader-rejected-generated-file", e.to_string()))?;
        let lay2 = layout(case);
        lists_generic(case, &af, &move |i| lay2.rank[i] + 1, rec)
    }
}

fn lists_generic<T: LabelType>(case: &CompositeCase, af: &AAFramework<T>, mk_label: &dyn Fn(usize) -> T, rec: &mut Rec) -> CheckResult {
    let lay = layout(case);
    let r = reference(case);
    let ncomp = all_comps(case).len();
    let index: std::collections::HashMap<String, usize> = (0..lay.n).map(|i| (label_of(case, &lay, i), i)).collect();
    let sems: Vec<Sem> = judged_sems(case, &r);
    // the list: the queried picks in the given order (repetitions kept), at most 3
    let mut list: Vec<usize> = case.queried.iter().take(3).map(|x| idx(*x, lay.n)).collect();
    if r.gated() && case.queried.first().map(|q| q % 2 == 1).unwrap_or(false) {
        // the gate argument is listed in every other gated case
        let pos = list.len() - 1;
        list[pos] = lay.offs[r.x_comp()];
    }
    let labels: Vec<T> = list.iter().map(|i| mk_label(*i)).collect();
    let refs: Vec<&T> = labels.iter().collect();
    let spans = {
        let mut c: Vec<usize> = list.iter().map(|i| lay.comp_of[*i].0).collect();
        c.sort();
        c.dedup();
        c.len()
    };
    rec.class(&format!("composite-list-spans-{}-components", spans));
    let ctx = || format!("list {:?} (nodes {:?}); {} arguments in {} components:\n{}", labels.iter().map(|l| l.to_string()).collect::<Vec<_>>(), list, lay.n, ncomp, text(case));
    for q in [Q::DC, Q::DS] {
        for (k, sem) in sems.iter().enumerate() {
            let sem = *sem;
            if q == Q::DC && sem == Sem::PR {
                // answered through CO by the tools; the preferred solver has no credulous entry point
                continue;
            }
            let encs = encodings_for(q, sem);
            let e = encs[(case.enc_pick as usize + k) % encs.len()];
            let enc = if e == Enc::ExpCo { Enc::Hybrid } else { e };
            let exists = sem != Sem::ST || r.has_stable;
            // per component: the mask of listed arguments
            let mut lmask = vec![0u64; ncomp];
            for i in &list {
                let (c, l) = lay.comp_of[*i];
                lmask[c] |= 1u64 << l;
            }
            let expected = if r.gated() {
                // the components' choices are independent and x follows from them
                let real = r.x_comp();
                let x_listed = lmask[real] != 0;
                let fam = |c: usize| r.fams[c].exts(sem);
                if q == Q::DC {
                    exists
                        && ((0..real).any(|c| lmask[c] != 0 && fam(c).iter().any(|e| e & lmask[c] != 0))
                            || (x_listed && (0..real).all(|c| fam(c).iter().any(|e| r.allows_x(sem, c, *e)))))
                } else {
                    // a product extension avoiding the whole list: every component avoids its listed arguments
                    // and, when x is listed, at least one of these choices keeps x out
                    let all_avoid = (0..real).all(|c| fam(c).iter().any(|e| e & lmask[c] == 0));
                    let one_blocks = (0..real).any(|c| fam(c).iter().any(|e| e & lmask[c] == 0 && !r.allows_x(sem, c, *e)));
                    !exists || !(all_avoid && (!x_listed || one_blocks))
                }
            } else if q == Q::DC {
                exists && (0..ncomp).any(|c| lmask[c] != 0 && r.fams[c].exts(sem).iter().any(|x| x & lmask[c] != 0))
            } else {
                !exists || (0..ncomp).any(|c| lmask[c] != 0 && r.fams[c].exts(sem).iter().all(|x| x & lmask[c] != 0))
            };
            let sig = format!("C07/composite/{}-{}/{}", q.name(), sem.name(), enc.name());
            rec.evals(2);
            let shared = Shared::new(satwrap::DEFAULT_CAP);
            let (st_with, cert) = guard(|| {
                let mut s = SolverObj::new(af, kind_for(q, sem), enc, satwrap::factory(&shared));
                if q == Q::DC {
                    s.dc(&refs, true)
                } else {
                    s.ds(&refs, true)
                }
            })
            .map_err(|p| Failure::new(format!("{}/panic", sig), p))?;
            let shared2 = Shared::new(satwrap::DEFAULT_CAP);
            let st_plain = guard(|| {
                let mut s = SolverObj::new(af, kind_for(q, sem), enc, satwrap::factory(&shared2));
                if q == Q::DC {
                    s.dc(&refs, false).0
                } else {
                    s.ds(&refs, false).0
                }
            })
            .map_err(|p| Failure::new(format!("{}/panic", sig), p))?;
            if st_plain != expected {
                return Err(Failure::new(format!("{}/plain/got-{}-expected-{}", sig, st_plain, expected), ctx()));
            }
            if st_with != expected {
                return Err(Failure::new(format!("{}/with-certificate/got-{}-expected-{}", sig, st_with, expected), ctx()));
            }
            let promised = if q == Q::DC { st_with } else { !st_with };
            match (promised, cert) {
                (false, None) => {}
                (false, Some(_)) => return Err(Failure::new(format!("{}/unexpected-certificate", sig), ctx())),
                (true, None) => return Err(Failure::new(format!("{}/missing-certificate", sig), ctx())),
                (true, Some(e)) => {
                    let masks = project(&e, af, &index, &lay, ncomp).map_err(|m| Failure::new(format!("{}/foreign-or-duplicate-member", sig), format!("{}; {}", m, ctx())))?;
                    let mut meets = false;
                    for c in 0..ncomp {
                        if !r.fams[c].exts(sem).contains(&masks[c]) {
                            return Err(Failure::new(format!("{}/certificate-not-an-extension", sig), format!("component {}; {}", c, ctx())));
                        }
                        if masks[c] & lmask[c] != 0 {
                            meets = true;
                        }
                    }
                    if r.gated() && (masks[r.x_comp()] == 1) != r.x_in(sem, &masks) {
                        return Err(Failure::new(format!("{}/certificate-not-an-extension/gate-argument", sig), ctx()));
                    }
                    if (q == Q::DC) != meets {
                        return Err(Failure::new(format!("{}/certificate-membership-wrong", sig), ctx()));
                    }
                }
            }
        }
    }
    if spans >= 2 && rec.nontrivial(&serde_json::to_string(case).unwrap_or_default()) {
        rec.sample(|| json!({"composite_framework_arguments": lay.n, "list_nodes": list, "components_spanned": spans}));
    }
    Ok(())
}


/// The closed forms are compared with brute force on every size up to 13 arguments (run at start-up).
pub fn self_test_closed() -> Result<usize, String> {
    let mut checked = 0;
    for kind in 0u8..4 {
        for size in 0u8..=255 {
            let (k, n) = closed_norm(kind, size);
            if n > 13 {
                continue;
            }
            let g = closed_graph(kind, size);
            let f = Fams::new(&G::new(g.n, &g.att_usize()));
            for sem in ALL_SEMS {
                if let Some(mut c) = closed_exts(kind, size, sem) {
                    let mut b: Vec<u64> = f.exts(sem).iter().map(|m| *m as u64).collect();
                    c.sort();
                    b.sort();
                    if c != b {
                        return Err(format!("closed form of kind {} size {} under {} is {:?}, brute force gives {:?}", k, n, sem.name(), c, b));
                    }
                    checked += 1;
                }
            }
        }
    }
    Ok(checked)
}

/// The gate rule (`Reference::allows_x`) and the product claim are compared with brute force on the
/// assembled framework for a fixed family of small gated cases (run at start-up): all pairs and a fixed
/// pseudo-random sample of triples of components with <= 3 arguments, every gate mode, plus closed forms.
pub fn self_test_gate() -> Result<usize, String> {
    let small: Vec<AbsGraph> = (1..=3usize).flat_map(crate::gen::all_graphs).collect();
    let mut z: u64 = 0x1234_5678_9ABC_DEF1;
    let mut next = move || {
        z ^= z << 13;
        z ^= z >> 7;
        z ^= z << 17;
        z
    };
    let mut checked = 0usize;
    for round in 0..1_500 {
        let k = 2 + (next() % 2) as usize;
        let mut comps: Vec<AbsGraph> = (0..k).map(|_| small[(next() % small.len() as u64) as usize].clone()).collect();
        let closed: Vec<(u8, u8)> = if round % 5 == 0 {
            comps.truncate(1);
            vec![((next() % 4) as u8, (next() % 3) as u8)]
        } else {
            vec![]
        };
        let gate: Vec<(u8, u16)> = (0..3).map(|_| ((next() % 3) as u8, next() as u16)).collect();
        let case = CompositeCase { comps, order_keys: vec![0], apx: false, queried: vec![], enc_pick: 0, dup: vec![], hub: 0, closed, gate };
        let lay = layout(&case);
        if lay.n > 14 {
            continue;
        }
        let r = reference(&case);
        let att = attack_nodes(&case);
        let g = G::new(lay.n, &att);
        let brute = Fams::new(&g);
        let real = r.x_comp();
        for sem in ALL_SEMS {
            if !r.fams.iter().all(|f| f.knows(sem)) || (sem == Sem::SST && !r.has_stable) {
                continue;
            }
            // all products, x decided by the rule
            let mut products: Vec<(Vec<u64>, u32)> = vec![(vec![], 0)];
            for c in 0..real {
                let mut nextp = vec![];
                for (masks, whole) in &products {
                    for e in r.fams[c].exts(sem) {
                        let mut m = masks.clone();
                        m.push(e);
                        let mut w = *whole;
                        for l in 0..64 {
                            if e & (1u64 << l) != 0 {
                                w |= 1u32 << (lay.offs[c] + l);
                            }
                        }
                        nextp.push((m, w));
                    }
                }
                products = nextp;
            }
            let mut claimed: Vec<u32> = products
                .iter()
                .map(|(m, w)| if r.x_in(sem, m) { w | (1u32 << lay.offs[real]) } else { *w })
                .collect();
            let mut b = brute.exts(sem);
            claimed.sort();
            claimed.dedup();
            b.sort();
            if claimed != b {
                return Err(format!("gate rule under {}: claimed {:?}, brute force {:?}; case {:?} attacks {:?}", sem.name(), claimed, b, case, att));
            }
            checked += 1;
        }
    }
    Ok(checked)
}
