//! C08 (valid histories) and C09 (histories with redundant / invalid updates) for the six
//! dynamic solvers, model-based: a plain set model is driven in lock step.

use crate::engine::{CheckResult, Failure, Prop, Rec, Tier};
use crate::gen::idx;
use crate::oracle::{self, Fams, Sem, G};
use crate::satwrap::{self, Shared};
use crate::util::{guard, masks_to_vecs};
use crustabri::dynamics::assumptions_on_attacks::{
    DynamicCompleteSemanticsSolverAttacks, DynamicStableSemanticsSolverAttacks,
};
use crustabri::dynamics::{
    DummyDynamicConstraintsEncoder, DynamicCompleteSemanticsSolver, DynamicPreferredSemanticsSolver, DynamicSolver,
    DynamicStableSemanticsSolver,
};
use crustabri::solvers::*;
use proptest::collection::vec;
use proptest::prelude::*;
use serde::{Deserialize, Serialize};
use serde_json::json;
use std::collections::BTreeSet;

pub const UNIVERSE: usize = 10;
pub const MAX_LIVE: usize = 7;
pub const FACTORS: [f64; 7] = [1.0, 1.01, 1.25, 1.5, 2.0, 3.0, 10.0];

#[derive(Clone, Copy, Debug, PartialEq, Eq, Hash, Serialize, Deserialize)]
pub enum DynKind {
    Co,
    St,
    Pr,
    CoAtt,
    StAtt,
    DummyCoPr,
    DummySt,
    DummySst,
    DummyStg,
    DummyId,
    DummyGr,
}

pub const ALL_KINDS: [DynKind; 11] = [
    DynKind::Co,
    DynKind::St,
    DynKind::Pr,
    DynKind::CoAtt,
    DynKind::StAtt,
    DynKind::DummyCoPr,
    DynKind::DummySt,
    DynKind::DummySst,
    DynKind::DummyStg,
    DynKind::DummyId,
    DynKind::DummyGr,
];

impl DynKind {
    /// (credulous semantics, skeptical semantics) supported
    pub fn sems(self) -> (Option<Sem>, Option<Sem>) {
        match self {
            DynKind::Co | DynKind::CoAtt => (Some(Sem::CO), None),
            DynKind::St | DynKind::StAtt | DynKind::DummySt => (Some(Sem::ST), Some(Sem::ST)),
            DynKind::Pr => (None, Some(Sem::PR)),
            DynKind::DummyCoPr => (Some(Sem::CO), Some(Sem::PR)),
            DynKind::DummySst => (Some(Sem::SST), Some(Sem::SST)),
            DynKind::DummyStg => (Some(Sem::STG), Some(Sem::STG)),
            DynKind::DummyId => (Some(Sem::ID), Some(Sem::ID)),
            DynKind::DummyGr => (Some(Sem::GR), Some(Sem::GR)),
        }
    }
    pub fn uses_factor(self) -> bool {
        matches!(self, DynKind::CoAtt | DynKind::StAtt)
    }
    pub fn is_dummy(self) -> bool {
        matches!(
            self,
            DynKind::DummyCoPr | DynKind::DummySt | DynKind::DummySst | DynKind::DummyStg | DynKind::DummyId | DynKind::DummyGr
        )
    }
}

/// The label type of the dynamic solvers under test: a number whose `Hash` is, for one case in three,
/// much coarser than its `Eq` (legal for `LabelType`), so that distinct labels collide in every hash table.
#[derive(Clone, Copy, Debug, PartialEq, Eq, PartialOrd, Ord)]
pub struct DL(pub usize);

thread_local! {
    static COARSE_HASH: std::cell::Cell<bool> = const { std::cell::Cell::new(false) };
}

/// Fixed for the duration of a case (a hash function must not change while a table lives).
pub struct CoarseScope(bool);
impl CoarseScope {
    pub fn enter(on: bool) -> CoarseScope {
        CoarseScope(COARSE_HASH.with(|c| c.replace(on)))
    }
    /// One case in three, by a hash of its serialised form.
    pub fn for_case<C: serde::Serialize>(case: &C) -> (CoarseScope, bool) {
        use std::hash::{Hash, Hasher};
        let mut h = std::collections::hash_map::DefaultHasher::new();
        serde_json::to_string(case).unwrap().hash(&mut h);
        let on = (h.finish() >> 20) % 3 == 0;
        (CoarseScope::enter(on), on)
    }
}
impl Drop for CoarseScope {
    fn drop(&mut self) {
        COARSE_HASH.with(|c| c.set(self.0));
    }
}

impl std::hash::Hash for DL {
    fn hash<H: std::hash::Hasher>(&self, state: &mut H) {
        if COARSE_HASH.with(|c| c.get()) {
            state.write_u8((self.0 % 3) as u8);
        } else {
            state.write_usize(self.0);
        }
    }
}

impl std::fmt::Display for DL {
    fn fmt(&self, f: &mut std::fmt::Formatter<'_>) -> std::fmt::Result {
        write!(f, "{}", self.0)
    }
}

pub trait Dyn: DynamicSolver<DL> + CredulousAcceptanceComputer<DL> + SkepticalAcceptanceComputer<DL> {}
impl<T: DynamicSolver<DL> + CredulousAcceptanceComputer<DL> + SkepticalAcceptanceComputer<DL>> Dyn for T {}

pub fn make(kind: DynKind, factor: f64, shared: &std::rc::Rc<Shared>) -> Box<dyn Dyn> {
    let f = || satwrap::factory(shared);
    macro_rules! dummy {
        ($c:ident, $s:ident) => {{
            let sc = std::rc::Rc::clone(shared);
            let ss = std::rc::Rc::clone(shared);
            Box::new(DummyDynamicConstraintsEncoder::<DL>::new(
                Some(Box::new(move |af| Box::new($c::new_with_sat_solver_factory(af, satwrap::factory(&sc))))),
                Some(Box::new(move |af| Box::new($s::new_with_sat_solver_factory(af, satwrap::factory(&ss))))),
            ))
        }};
    }
    match kind {
        DynKind::Co => Box::new(DynamicCompleteSemanticsSolver::<DL>::new_with_sat_solver_factory(f())),
        DynKind::St => Box::new(DynamicStableSemanticsSolver::<DL>::new_with_sat_solver_factory(f())),
        DynKind::Pr => Box::new(DynamicPreferredSemanticsSolver::<DL>::new_with_sat_solver_factory(f())),
        DynKind::CoAtt => {
            Box::new(DynamicCompleteSemanticsSolverAttacks::<DL>::new_with_sat_solver_factory_and_arg_factor(f(), factor))
        }
        DynKind::StAtt => {
            Box::new(DynamicStableSemanticsSolverAttacks::<DL>::new_with_sat_solver_factory_and_arg_factor(f(), factor))
        }
        DynKind::DummyCoPr => dummy!(CompleteSemanticsSolver, PreferredSemanticsSolver),
        DynKind::DummySt => dummy!(StableSemanticsSolver, StableSemanticsSolver),
        DynKind::DummySst => dummy!(SemiStableSemanticsSolver, SemiStableSemanticsSolver),
        DynKind::DummyStg => dummy!(StageSemanticsSolver, StageSemanticsSolver),
        DynKind::DummyId => dummy!(IdealSemanticsSolver, IdealSemanticsSolver),
        DynKind::DummyGr => Box::new(DummyDynamicConstraintsEncoder::<DL>::new(
            Some(Box::new(|af| Box::new(GroundedSemanticsSolver::new(af)))),
            Some(Box::new(|af| Box::new(GroundedSemanticsSolver::new(af)))),
        )),
    }
}

#[derive(Clone, Debug, PartialEq, Eq, Hash, Serialize, Deserialize)]
pub enum OpT {
    NewArg(u16),
    RemArg(u16),
    NewAtt(u16, u16),
    RemAtt(u16),
    Query { arg: u16, cred: bool, cert: bool },
    // redundant (C09)
    DupArg(u16),
    DupAtt(u16),
    // invalid (C09)
    RemUnknownArg(u16),
    AttUnknown { known: u16, unknown: u16, dir: u8 },
    RemAbsentAtt(u16, u16),
    RemAttUnknownArg { known: u16, unknown: u16, dir: u8 },
    /// creates k+1 throw-away arguments and removes them again (valid updates): ids grow by k+1
    Inflate(u8),
}

#[derive(Clone, Debug, Serialize, Deserialize)]
pub struct DynCase {
    pub kind: DynKind,
    pub factor: u8,
    pub ops: Vec<OpT>,
    /// number of label groups (0 or 1: one group). Attacks stay inside a group, so the live framework is a
    /// disjoint union of up to 5 parts of <= 7 arguments each (up to 35 live arguments) and the reference
    /// answer is exact by composition.
    #[serde(default)]
    pub groups: u8,
}

pub const GROUP_STRIDE: usize = 16;

/// A concrete step after resolution against the model (for messages and samples).
#[derive(Clone, Debug, Serialize)]
pub enum Step {
    NewArg(usize),
    RemArg(usize),
    NewAtt(usize, usize),
    RemAtt(usize, usize),
    DC(usize, bool),
    DS(usize, bool),
    RedundantNewArg(usize),
    RedundantNewAtt(usize, usize),
    InvalidRemArg(usize),
    InvalidNewAtt(usize, usize),
    InvalidRemAtt(usize, usize),
    Inflate(usize),
}

#[derive(Default)]
pub struct Model {
    pub live: BTreeSet<usize>,
    pub atts: BTreeSet<(usize, usize)>,
    /// number of label groups (0 is read as 1)
    pub groups: usize,
    /// wide groups: 16 labels per group of which up to 15 are live (reference by brute force up to 13 live
    /// arguments, by the backtracking reference for 14-15)
    pub wide: bool,
}

impl Model {
    pub fn n_groups(&self) -> usize {
        self.groups.max(1)
    }
    pub fn universe(&self) -> usize {
        if self.wide {
            GROUP_STRIDE
        } else {
            UNIVERSE
        }
    }
    pub fn max_live(&self) -> usize {
        if self.wide {
            GROUP_STRIDE - 1
        } else {
            MAX_LIVE
        }
    }
    fn group_of(l: usize) -> usize {
        l / GROUP_STRIDE
    }
    /// the live sub-framework of one group, with its labels in increasing order
    fn group_graph(&self, g: usize) -> (G, Vec<usize>) {
        let live: Vec<usize> = self.live.iter().copied().filter(|l| Self::group_of(*l) == g).collect();
        let pos = |l: usize| live.iter().position(|x| *x == l).unwrap();
        let att: Vec<(usize, usize)> = self.atts.iter().filter(|(a, _)| Self::group_of(*a) == g).map(|(a, b)| (pos(*a), pos(*b))).collect();
        (G::new(live.len(), &att), live)
    }
    fn dead_labels(&self) -> Vec<usize> {
        // labels of the universe that are not live, plus one that is never created
        let mut v: Vec<usize> = (0..self.n_groups())
            .flat_map(|g| (0..self.universe()).map(move |k| g * GROUP_STRIDE + k))
            .filter(|l| !self.live.contains(l))
            .collect();
        v.push(9_999);
        v
    }
}

fn resolve(op: &OpT, m: &Model, kind: DynKind) -> Option<Step> {
    let live: Vec<usize> = m.live.iter().copied().collect();
    let atts: Vec<(usize, usize)> = m.atts.iter().copied().collect();
    match op {
        OpT::NewArg(r) => {
            // the group is taken from the low bits, the label inside the group from the whole value
            let g = (*r as usize) % m.n_groups();
            let in_group = live.iter().filter(|l| Model::group_of(**l) == g).count();
            if in_group >= m.max_live() {
                return None;
            }
            let free: Vec<usize> = (0..m.universe()).map(|k| g * GROUP_STRIDE + k).filter(|l| !m.live.contains(l)).collect();
            Some(Step::NewArg(free[idx(*r, free.len())]))
        }
        OpT::Inflate(k) => Some(Step::Inflate(*k as usize % 48 + 1)),
        OpT::RemArg(r) => {
            if live.is_empty() {
                return None;
            }
            Some(Step::RemArg(live[idx(*r, live.len())]))
        }
        OpT::NewAtt(a, b) => {
            if live.is_empty() {
                return None;
            }
            // attacks stay inside a group
            let a = live[idx(*a, live.len())];
            let same: Vec<usize> = live.iter().copied().filter(|l| Model::group_of(*l) == Model::group_of(a)).collect();
            let b = same[idx(*b, same.len())];
            if m.atts.contains(&(a, b)) {
                None
            } else {
                Some(Step::NewAtt(a, b))
            }
        }
        OpT::RemAtt(r) => {
            if atts.is_empty() {
                return None;
            }
            let (a, b) = atts[idx(*r, atts.len())];
            Some(Step::RemAtt(a, b))
        }
        OpT::Query { arg, cred, cert } => {
            if live.is_empty() {
                return None;
            }
            let a = live[idx(*arg, live.len())];
            let (c, s) = kind.sems();
            let cred = match (c, s) {
                (Some(_), Some(_)) => *cred,
                (Some(_), None) => true,
                (None, Some(_)) => false,
                _ => return None,
            };
            Some(if cred { Step::DC(a, *cert) } else { Step::DS(a, *cert) })
        }
        OpT::DupArg(r) => {
            if live.is_empty() {
                return None;
            }
            Some(Step::RedundantNewArg(live[idx(*r, live.len())]))
        }
        OpT::DupAtt(r) => {
            if atts.is_empty() {
                return None;
            }
            let (a, b) = atts[idx(*r, atts.len())];
            Some(Step::RedundantNewAtt(a, b))
        }
        OpT::RemUnknownArg(r) => {
            let dead = m.dead_labels();
            Some(Step::InvalidRemArg(dead[idx(*r, dead.len())]))
        }
        OpT::AttUnknown { known, unknown, dir } => {
            let dead = m.dead_labels();
            let u = dead[idx(*unknown, dead.len())];
            let k = if live.is_empty() || *dir % 3 == 2 { dead[idx(*known, dead.len())] } else { live[idx(*known, live.len())] };
            Some(if *dir % 3 == 0 { Step::InvalidNewAtt(k, u) } else { Step::InvalidNewAtt(u, k) })
        }
        OpT::RemAbsentAtt(a, b) => {
            if live.is_empty() {
                return None;
            }
            let (a, b) = (live[idx(*a, live.len())], live[idx(*b, live.len())]);
            if m.atts.contains(&(a, b)) {
                None
            } else {
                Some(Step::InvalidRemAtt(a, b))
            }
        }
        OpT::RemAttUnknownArg { known, unknown, dir } => {
            let dead = m.dead_labels();
            let u = dead[idx(*unknown, dead.len())];
            let k = if live.is_empty() || *dir % 3 == 2 { dead[idx(*known, dead.len())] } else { live[idx(*known, live.len())] };
            Some(if *dir % 3 == 0 { Step::InvalidRemAtt(k, u) } else { Step::InvalidRemAtt(u, k) })
        }
    }
}

pub struct Dynamic {
    pub faults: bool,
}

/// Applies one valid template to solver and model; queries are checked against the reference
/// but a panic inside the solver propagates to the caller (used by the fault-injection check).
pub fn apply_valid(s: &mut Box<dyn Dyn>, m: &mut Model, op: &OpT, kind: DynKind) -> Result<(), Failure> {
    let step = match resolve(op, m, kind) {
        Some(s) => s,
        None => return Ok(()),
    };
    let fail = |what: &str, e: String| Failure::new(format!("C17/lib-dynamic/{:?}/{}-error", kind, what), e);
    match step {
        Step::NewArg(l) => {
            s.new_argument(DL(l));
            m.live.insert(l);
        }
        Step::RemArg(l) => {
            s.remove_argument(&DL(l)).map_err(|e| fail("remove_argument", e.to_string()))?;
            m.live.remove(&l);
            m.atts.retain(|(a, b)| *a != l && *b != l);
        }
        Step::NewAtt(a, b) => {
            s.new_attack(&DL(a), &DL(b)).map_err(|e| fail("new_attack", e.to_string()))?;
            m.atts.insert((a, b));
        }
        Step::RemAtt(a, b) => {
            s.remove_attack(&DL(a), &DL(b)).map_err(|e| fail("remove_attack", e.to_string()))?;
            m.atts.remove(&(a, b));
        }
        Step::Inflate(k) => {
            for j in 0..k {
                s.new_argument(DL(1_000 + j));
            }
            for j in 0..k {
                s.remove_argument(&DL(1_000 + j)).map_err(|e| fail("remove_argument", e.to_string()))?;
            }
        }
        Step::DC(a, cert) => Dynamic { faults: false }.query_inner(s, m, kind, a, true, cert, "", false)?,
        Step::DS(a, cert) => Dynamic { faults: false }.query_inner(s, m, kind, a, false, cert, "", false)?,
        _ => {}
    }
    Ok(())
}

impl Dynamic {
    fn pid(&self) -> &'static str {
        if self.faults {
            "C09"
        } else {
            "C08"
        }
    }

    fn query(
        &self,
        s: &mut Box<dyn Dyn>,
        m: &Model,
        kind: DynKind,
        a: usize,
        cred: bool,
        cert: bool,
        ctx: &str,
    ) -> CheckResult {
        self.query_inner(s, m, kind, a, cred, cert, ctx, true)
    }

    #[allow(clippy::too_many_arguments)]
    pub fn query_inner(
        &self,
        s: &mut Box<dyn Dyn>,
        m: &Model,
        kind: DynKind,
        a: usize,
        cred: bool,
        cert: bool,
        ctx: &str,
        guarded: bool,
    ) -> CheckResult {
        let ga = Model::group_of(a);
        let (cs, ss) = kind.sems();
        let sem = if cred { cs.unwrap() } else { ss.unwrap() };
        // every group is a union of connected components: extensions of the whole are products
        let mut parts: Vec<(usize, Vec<usize>, Vec<u32>)> = vec![];
        for g in 0..m.n_groups() {
            let (gg, live) = m.group_graph(g);
            match Fams::auto(&gg) {
                Some(f) => parts.push((g, live, f.exts(sem))),
                // too many extensions for the backtracking reference (wide groups only): the query is skipped
                None => return Ok(()),
            }
        }
        let exists_all = parts.iter().all(|(_, _, e)| !e.is_empty());
        let (_, live, exts) = parts.iter().find(|(g, _, _)| *g == ga).cloned().unwrap();
        let pos = live.iter().position(|x| *x == a).unwrap();
        let bit = 1u32 << pos;
        let expected = if cred { exists_all && oracle::dc(&exts, bit) } else { !exists_all || oracle::ds(&exts, bit) };
        let qn = if cred { "DC" } else { "DS" };
        let sig = format!("{}/{:?}/{}-{}{}", self.pid(), kind, qn, sem.name(), ctx);
        let run_it = |s: &mut Box<dyn Dyn>| {
            if cert {
                let (b, c) = if cred {
                    s.is_credulously_accepted_with_certificate(&DL(a))
                } else {
                    s.is_skeptically_accepted_with_certificate(&DL(a))
                };
                (b, Some(c.map(|v| v.iter().map(|x| x.label().0).collect::<Vec<usize>>())))
            } else if cred {
                (s.is_credulously_accepted(&DL(a)), None)
            } else {
                (s.is_skeptically_accepted(&DL(a)), None)
            }
        };
        let r = if guarded { guard(|| run_it(s)) } else { Ok(run_it(s)) };
        let (got, certv) = match r {
            Err(p) => return Err(Failure::new(format!("{}/panic", sig), format!("query on {} panicked: {}", a, p))),
            Ok(x) => x,
        };
        if got != expected {
            return Err(Failure::new(
                format!("{}/status-got-{}-expected-{}", sig, got, expected),
                format!("argument {} live {:?} attacks {:?} reference on its group {:?} (every group has an extension: {})", a, m.live, m.atts, masks_to_vecs(&exts), exists_all),
            ));
        }
        if let Some(c) = certv {
            let promised = if cred { got } else { !got };
            match (promised, c) {
                (false, None) => {}
                (false, Some(_)) => return Err(Failure::new(format!("{}/unexpected-certificate", sig), format!("argument {}", a))),
                (true, None) => return Err(Failure::new(format!("{}/missing-certificate", sig), format!("argument {}", a))),
                (true, Some(v)) => {
                    // project the certificate on every group
                    let mut masks: Vec<u32> = vec![0; parts.len()];
                    for l in &v {
                        let gi = Model::group_of(*l);
                        let p = parts.get(gi).and_then(|(_, lv, _)| lv.iter().position(|x| x == l));
                        let p = match p {
                            Some(p) => p,
                            None => {
                                return Err(Failure::new(
                                    format!("{}/certificate-has-dead-argument", sig),
                                    format!("certificate {:?} live {:?}", v, m.live),
                                ))
                            }
                        };
                        if masks[gi] & (1 << p) != 0 {
                            return Err(Failure::new(format!("{}/certificate-duplicate", sig), format!("certificate {:?}", v)));
                        }
                        masks[gi] |= 1 << p;
                    }
                    // a DC-PR witness may be complete only; no dynamic solver answers DC-PR
                    for (gi, (_, lv, e)) in parts.iter().enumerate() {
                        if !e.contains(&masks[gi]) {
                            return Err(Failure::new(
                                format!("{}/certificate-not-an-extension", sig),
                                format!(
                                    "argument {} certificate {:?}: on group {} (live {:?}) it is {:?}, reference {:?}; attacks {:?}",
                                    a,
                                    v,
                                    gi,
                                    lv,
                                    crate::util::mask_to_vec(masks[gi]),
                                    masks_to_vecs(e),
                                    m.atts
                                ),
                            ));
                        }
                    }
                    if cred != (masks[ga] & bit != 0) {
                        return Err(Failure::new(
                            format!("{}/certificate-membership-wrong", sig),
                            format!("argument {} certificate {:?}", a, v),
                        ));
                    }
                }
            }
        }
        Ok(())
    }
}

pub fn op_strategy(faults: bool) -> BoxedStrategy<OpT> {
    let valid = prop_oneof![
        18 => any::<u16>().prop_map(OpT::NewArg),
        7 => any::<u16>().prop_map(OpT::RemArg),
        24 => (any::<u16>(), any::<u16>()).prop_map(|(a, b)| OpT::NewAtt(a, b)),
        9 => any::<u16>().prop_map(OpT::RemAtt),
        42 => (any::<u16>(), any::<bool>(), any::<bool>()).prop_map(|(arg, cred, cert)| OpT::Query { arg, cred, cert }),
        1 => any::<u8>().prop_map(OpT::Inflate),
    ];
    if !faults {
        return valid.boxed();
    }
    if std::env::var("VERIF_C09_ONLY").as_deref() == Ok("redundant") {
        // diagnostic mode: redundant updates only
        return prop_oneof![
            85 => valid,
            8 => any::<u16>().prop_map(OpT::DupArg),
            8 => any::<u16>().prop_map(OpT::DupAtt),
        ]
        .boxed();
    }
    prop_oneof![
        85 => valid,
        3 => any::<u16>().prop_map(OpT::DupArg),
        3 => any::<u16>().prop_map(OpT::DupAtt),
        3 => any::<u16>().prop_map(OpT::RemUnknownArg),
        2 => (any::<u16>(), any::<u16>(), 0u8..3).prop_map(|(known, unknown, dir)| OpT::AttUnknown { known, unknown, dir }),
        2 => (any::<u16>(), any::<u16>()).prop_map(|(a, b)| OpT::RemAbsentAtt(a, b)),
        2 => (any::<u16>(), any::<u16>(), 0u8..3).prop_map(|(known, unknown, dir)| OpT::RemAttUnknownArg { known, unknown, dir }),
    ]
    .boxed()
}

impl Prop for Dynamic {
    type Case = DynCase;
    fn id(&self) -> &'static str {
        self.pid()
    }
    fn rule(&self) -> String {
        if self.faults {
            "Histories as in C08 in which ~15% of the updates are redundant (existing argument / existing attack) or invalid (removing an unknown or already removed argument, attack to/from/between unknown arguments, removing an absent attack or one with an unknown end), at any position. Redundant updates must succeed and change nothing; invalid ones must be rejected by the call itself; every later answer must be that of the model, which ignores both. Non-trivial: the history has >=1 redundant and >=1 invalid step, each followed by >=1 argument creation and >=1 query; distinct = (solver kind, factor, resolved step sequence).".into()
        } else {
            "Histories of 5-80 (quick) / up to 200 (thorough) templates over a universe of 10 labels (<=7 live), or, in a quarter of the cases, 2-5 groups of 10 labels with attacks confined to a group (up to 35 live arguments; the reference answer is exact by composition over the groups); one history in eight is up to three times longer; a rare operation creates and removes 1-48 throw-away arguments so that ids run into the hundreds: new_argument (fresh or previously removed label), remove_argument, new_attack (absent, self-attacks included), remove_attack, and the queries the solver kind supports, with/without certificate; templates carry indices resolved against the model, so every subsequence is valid. 11 solver configurations (complete, stable, preferred, the two attack-assumption variants with 7 reservation factors, recompute wrapper over CO/PR, ST, SST, STG, ID, GR). After every query, status and certificate are compared with the brute-force semantics of the model's current framework; a final sweep asks every supported query on every live argument. Non-trivial: a query after a removal that follows an earlier query, and a re-added label or a burst of >=2 queries or (attack-assumption kinds) an argument created after the first query; distinct = (solver kind, factor, resolved step sequence).".into()
        }
    }
    fn assumptions(&self) -> Vec<String> {
        vec![
            "oracle.rs reference semantics on the model's framework (<=7 live arguments)".into(),
            "single-argument queries and supported query kinds only (others panic by contract)".into(),
        ]
    }
    fn strategy(&self, tier: Tier) -> BoxedStrategy<DynCase> {
        let maxlen = tier.pick(80usize, 200usize);
        let faults = self.faults;
        (
            0usize..ALL_KINDS.len() + 6,
            0u8..FACTORS.len() as u8,
            prop_oneof![7 => vec(op_strategy(faults), 5..=maxlen), 1 => vec(op_strategy(faults), maxlen..=3 * maxlen)],
            prop_oneof![9 => Just(1u8), 3 => 2u8..=5, 1 => Just(101u8), 1 => Just(102u8)],
        )
            .prop_map(|(k, factor, ops, groups)| {
                // the five incremental kinds get extra weight
                let kind = if k < ALL_KINDS.len() { ALL_KINDS[k] } else { ALL_KINDS[(k - ALL_KINDS.len()) % 5] };
                let kind = if k == ALL_KINDS.len() + 5 { DynKind::Pr } else { kind };
                DynCase { kind, factor, ops, groups }
            })
            .boxed()
    }
    fn n_cases(&self, tier: Tier) -> u32 {
        tier.pick(150_000, 3_000_000)
    }
    fn max_shrink_iters(&self) -> u32 {
        200_000
    }
    fn enumerated(&self, _tier: Tier) -> (Vec<DynCase>, String) {
        if self.faults {
            return (vec![], String::new());
        }
        // one long-lived solver object per incremental kind: two arguments and a query, then 1400 bursts that
        // create and remove 48 arguments each (67 200 ids: beyond 16 bits), then a third argument, an attack
        // from it and the same certificate query twice (the second one may be served from a cache)
        let mut v = vec![];
        for kind in [DynKind::Co, DynKind::St, DynKind::Pr, DynKind::CoAtt, DynKind::StAtt] {
            let mut ops = vec![OpT::NewArg(0), OpT::NewArg(0), OpT::NewAtt(0, 65_535), OpT::Query { arg: 65_535, cred: true, cert: true }];
            ops.extend(std::iter::repeat(OpT::Inflate(47)).take(1_400));
            ops.push(OpT::NewArg(0));
            ops.push(OpT::NewAtt(65_535, 0));
            for _ in 0..2 {
                ops.push(OpT::Query { arg: 65_535, cred: true, cert: true });
                ops.push(OpT::Query { arg: 0, cred: false, cert: true });
            }
            v.push(DynCase { kind, factor: 1, ops, groups: 1 });
        }
        (v, "one history of 1400 create-and-remove bursts (67 200 argument ids on one solver object) per incremental solver kind".into())
    }
    fn run(&self, case: &DynCase, rec: &mut Rec) -> CheckResult {
        let kind = case.kind;
        let factor = FACTORS[case.factor as usize % FACTORS.len()];
        let shared = Shared::new(satwrap::DEFAULT_CAP);
        let (_scope, chosen) = satwrap::ChoiceScope::for_case(case);
        if chosen {
            rec.class("sat-backend-returns-chosen-models");
        }
        let (_hscope, coarse) = CoarseScope::for_case(case);
        if coarse {
            rec.class("labels-with-coarse-hash");
        }
        let mut s = match guard(|| make(kind, factor, &shared)) {
            Ok(s) => s,
            Err(p) => return Err(Failure::new(format!("{}/{:?}/constructor-panic", self.pid(), kind), p)),
        };
        // groups >= 100 encodes "wide groups" (see Model::wide), the number of groups being the remainder
        let mut m = Model { groups: (case.groups % 100) as usize, wide: case.groups >= 100, ..Model::default() };
        if m.wide {
            rec.class("wide-groups-up-to-15-live-arguments");
        }
        let mut steps: Vec<Step> = vec![];
        // bookkeeping for the non-triviality rule
        let mut ever_live: BTreeSet<usize> = BTreeSet::new();
        let (mut queries, mut seen_query, mut removal_after_query, mut query_after_removal) = (0u32, false, false, false);
        let (mut readded, mut burst, mut last_was_query, mut created_after_query) = (false, false, false, false);
        let mut pending_redundant: Vec<(bool, bool)> = vec![]; // (created after, queried after)
        let mut pending_invalid: Vec<(bool, bool)> = vec![];
        for op in &case.ops {
            let step = match resolve(op, &m, kind) {
                Some(s) => s,
                None => continue,
            };
            steps.push(step.clone());
            rec.eval();
            let pid = self.pid();
            let upd = |name: &str, r: Result<Result<(), String>, String>, want_ok: bool| -> CheckResult {
                match r {
                    Err(p) => Err(Failure::new(format!("{}/{:?}/{}/panic", pid, kind, name), p)),
                    Ok(Ok(())) if want_ok => Ok(()),
                    Ok(Err(e)) if want_ok => {
                        Err(Failure::new(format!("{}/{:?}/{}/error-on-valid-or-redundant-update", pid, kind, name), e))
                    }
                    Ok(Ok(())) => Err(Failure::new(
                        format!("{}/{:?}/{}/invalid-update-accepted", pid, kind, name),
                        "the update call returned Ok for an invalid update".to_string(),
                    )),
                    Ok(Err(_)) => Ok(()),
                }
            };
            let mut is_query = false;
            match step {
                Step::NewArg(l) => {
                    upd("new_argument", guard(|| {
                        s.new_argument(DL(l));
                        Ok::<(), String>(())
                    }), true)?;
                    if ever_live.contains(&l) {
                        readded = true;
                    }
                    ever_live.insert(l);
                    m.live.insert(l);
                    if seen_query {
                        created_after_query = true;
                    }
                    pending_redundant.iter_mut().for_each(|p| p.0 = true);
                    pending_invalid.iter_mut().for_each(|p| p.0 = true);
                }
                Step::RemArg(l) => {
                    upd("remove_argument", guard(|| s.remove_argument(&DL(l)).map_err(|e| e.to_string())), true)?;
                    m.live.remove(&l);
                    m.atts.retain(|(a, b)| *a != l && *b != l);
                    if seen_query {
                        removal_after_query = true;
                    }
                }
                Step::NewAtt(a, b) => {
                    upd("new_attack", guard(|| s.new_attack(&DL(a), &DL(b)).map_err(|e| e.to_string())), true)?;
                    m.atts.insert((a, b));
                }
                Step::RemAtt(a, b) => {
                    upd("remove_attack", guard(|| s.remove_attack(&DL(a), &DL(b)).map_err(|e| e.to_string())), true)?;
                    m.atts.remove(&(a, b));
                    if seen_query {
                        removal_after_query = true;
                    }
                }
                Step::DC(a, cert) | Step::DS(a, cert) => {
                    is_query = true;
                    let cred = matches!(step, Step::DC(..));
                    self.query(&mut s, &m, kind, a, cred, cert, "").map_err(|mut f| {
                        f.message = format!("{} | factor {} steps {:?}", f.message, factor, steps);
                        f
                    })?;
                    queries += 1;
                    if removal_after_query {
                        query_after_removal = true;
                    }
                    if last_was_query {
                        burst = true;
                    }
                    seen_query = true;
                    pending_redundant.iter_mut().for_each(|p| {
                        if p.0 {
                            p.1 = true
                        }
                    });
                    pending_invalid.iter_mut().for_each(|p| {
                        if p.0 {
                            p.1 = true
                        }
                    });
                }
                Step::Inflate(k) => {
                    for j in 0..k {
                        let l = 1_000 + j;
                        upd("new_argument", guard(|| {
                            s.new_argument(DL(l));
                            Ok::<(), String>(())
                        }), true)?;
                    }
                    for j in 0..k {
                        let l = 1_000 + j;
                        upd("remove_argument", guard(|| s.remove_argument(&DL(l)).map_err(|e| e.to_string())), true)?;
                    }
                    if seen_query {
                        removal_after_query = true;
                    }
                }
                Step::RedundantNewArg(l) => {
                    upd("redundant-new_argument", guard(|| {
                        s.new_argument(DL(l));
                        Ok::<(), String>(())
                    }), true)?;
                    pending_redundant.push((false, false));
                }
                Step::RedundantNewAtt(a, b) => {
                    upd("redundant-new_attack", guard(|| s.new_attack(&DL(a), &DL(b)).map_err(|e| e.to_string())), true)?;
                    pending_redundant.push((false, false));
                }
                Step::InvalidRemArg(l) => {
                    upd("remove_argument-unknown", guard(|| s.remove_argument(&DL(l)).map_err(|e| e.to_string())), false)?;
                    pending_invalid.push((false, false));
                }
                Step::InvalidNewAtt(a, b) => {
                    upd("new_attack-unknown-argument", guard(|| s.new_attack(&DL(a), &DL(b)).map_err(|e| e.to_string())), false)?;
                    pending_invalid.push((false, false));
                }
                Step::InvalidRemAtt(a, b) => {
                    upd("remove_attack-absent", guard(|| s.remove_attack(&DL(a), &DL(b)).map_err(|e| e.to_string())), false)?;
                    pending_invalid.push((false, false));
                }
            }
            last_was_query = is_query;
        }
        // final sweep: every supported query on every live argument
        let (cs, ss) = kind.sems();
        let live: Vec<usize> = m.live.iter().copied().collect();
        for a in &live {
            for (cred, sem) in [(true, cs), (false, ss)] {
                if sem.is_some() {
                    rec.eval();
                    self.query(&mut s, &m, kind, *a, cred, true, "/final-sweep").map_err(|mut f| {
                        f.message = format!("{} | factor {} steps {:?}", f.message, factor, steps);
                        f
                    })?;
                    queries += 1;
                }
            }
        }
        rec.class(&format!("kind-{:?}", kind));
        if readded {
            rec.class("re-added-label");
        }
        if burst {
            rec.class("query-burst");
        }
        if query_after_removal {
            rec.class("query-after-removal-after-query");
        }
        if kind.uses_factor() {
            rec.class(&format!("factor-{}", factor));
            // every (re-)encoding asks the factory for a fresh solver
            let encodings = shared.instances.borrow().len();
            rec.class(&format!("attack-variant-encodings-{}", encodings.min(6)));
        }
        rec.count("queries", queries as u64);
        if case.groups >= 2 {
            rec.class(&format!("label-groups-{}", case.groups));
            rec.class(&format!("live-arguments-at-end-{:02}+", (m.live.len() / 5) * 5));
        }
        let nt = if self.faults {
            pending_redundant.iter().any(|p| p.0 && p.1) && pending_invalid.iter().any(|p| p.0 && p.1)
        } else {
            query_after_removal && (readded || burst || (kind.uses_factor() && created_after_query))
        };
        if nt {
            let key = format!("{:?}/{}/{:?}", kind, case.factor, steps);
            if rec.nontrivial(&key) {
                rec.sample_sized(steps.len(), || json!({"kind": format!("{:?}", kind), "factor": factor, "steps": steps}));
            }
        }
        Ok(())
    }
}
