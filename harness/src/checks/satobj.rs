//! C15: SAT solver objects honour the incremental solving contract (model-based, three backends).

use crate::engine::{CheckResult, Failure, Prop, Rec, Tier};
use crate::extsat::{kissat_backend, FakeSat};
use crate::satwrap::{embedded, Backend};
use crate::util::guard;
use crustabri::sat::{Literal, SatSolver, SolvingResult};
use proptest::collection::vec;
use proptest::prelude::*;
use serde::{Deserialize, Serialize};
use serde_json::json;

pub const MAX_VAR: i8 = 12;
pub const MAX_ASSUMED_VAR: i8 = 14;

#[derive(Clone, Debug, PartialEq, Eq, Hash, Serialize, Deserialize)]
pub enum SatOp {
    Add(Vec<i8>),
    Reserve(u8),
    Solve(Vec<i8>),
    /// re-adds the clauses added so far, cyclically, (k+1)*4096 times: the semantics is unchanged but the
    /// clause count and the DIMACS text grow by orders of magnitude (beyond internal buffer capacities)
    Bulk(u8),
}

#[derive(Clone, Debug, Serialize, Deserialize)]
pub struct SatCase {
    pub ops: Vec<SatOp>,
    /// variable v of the abstract sequence is the solver's variable (v-1)*stride+1, so that large
    /// and far-apart variable numbers are exercised while the brute-force oracle stays small
    #[serde(default)]
    pub stride: u8,
}

fn mapv(v: usize, stride: u8) -> usize {
    let s = stride.max(1) as usize;
    (v - 1) * s + 1
}

fn mapl(l: i8, stride: u8) -> isize {
    let v = mapv(l.unsigned_abs() as usize, stride) as isize;
    if l > 0 {
        v
    } else {
        -v
    }
}

pub struct SatObj;

fn lit(maxv: i8) -> impl Strategy<Value = i8> {
    (1..=maxv, any::<bool>()).prop_map(|(v, s)| if s { v } else { -v })
}

fn op() -> impl Strategy<Value = SatOp> {
    prop_oneof![
        44 => vec(lit(MAX_VAR), 1..=4).prop_map(SatOp::Add),
        6 => vec(lit(MAX_VAR), 5..=9).prop_map(SatOp::Add),
        6 => vec(lit(4), 1..=2).prop_map(SatOp::Add),
        1 => Just(SatOp::Add(vec![])),
        5 => (0u8..=16).prop_map(SatOp::Reserve),
        12 => vec(lit(MAX_ASSUMED_VAR), 0..=4).prop_map(SatOp::Solve),
        6 => Just(SatOp::Solve(vec![])),
    ]
}

/// the rare heavy operation is drawn separately so that most sequences stay cheap
fn op_with_bulk() -> impl Strategy<Value = SatOp> {
    prop_oneof![400 => op(), 1 => (0u8..40).prop_map(SatOp::Bulk)]
}

/// Structured prefixes: pigeonhole 3 into 2, implication chain.
fn structured() -> impl Strategy<Value = Vec<SatOp>> {
    prop_oneof![
        Just(vec![]),
        Just({
            // p(i,h) = 2*i + h + 1, i in 0..3, h in 0..2
            let mut v = vec![];
            for i in 0..3i8 {
                v.push(SatOp::Add(vec![2 * i + 1, 2 * i + 2]));
            }
            for h in 0..2i8 {
                for i in 0..3i8 {
                    for j in (i + 1)..3 {
                        v.push(SatOp::Add(vec![-(2 * i + h + 1), -(2 * j + h + 1)]));
                    }
                }
            }
            v
        }),
        (2i8..=10).prop_map(|k| (1..k).map(|i| SatOp::Add(vec![-i, i + 1])).collect()),
    ]
}

#[derive(Clone, Debug, PartialEq)]
enum Verdict {
    Sat,
    Unsat,
}

fn brute(clauses: &[Vec<i8>], assumptions: &[i8], nv: usize) -> bool {
    let nv = nv.max(1);
    'a: for m in 0u32..(1u32 << nv) {
        let val = |l: i8| -> bool {
            let v = l.unsigned_abs() as u32 - 1;
            ((m >> v) & 1 == 1) == (l > 0)
        };
        for a in assumptions {
            if !val(*a) {
                continue 'a;
            }
        }
        for c in clauses {
            if !c.iter().any(|l| val(*l)) {
                continue 'a;
            }
        }
        return true;
    }
    false
}

fn run_backend(name: &str, backend: &Backend, case: &SatCase, rec: &mut Rec, fake: Option<&FakeSat>) -> Result<Vec<Verdict>, Failure> {
    let mut s: Box<dyn SatSolver> = backend();
    let mut clauses: Vec<Vec<i8>> = vec![];
    let mut declared: usize = 0; // max(used in clauses, reserved)
    let mut verdicts = vec![];
    let sigp = format!("C15/{}", name);
    let stride = case.stride;
    for (k, op) in case.ops.iter().enumerate() {
        match op {
            SatOp::Add(c) => {
                let cl: Vec<Literal> = c.iter().map(|l| Literal::from(mapl(*l, stride))).collect();
                guard(|| s.add_clause(cl)).map_err(|p| Failure::new(format!("{}/add_clause-panic", sigp), p))?;
                for l in c {
                    declared = declared.max(l.unsigned_abs() as usize);
                }
                clauses.push(c.clone());
            }
            SatOp::Bulk(k) => {
                let base: Vec<Vec<i8>> = if clauses.is_empty() { vec![vec![1, -2]] } else { clauses.clone() };
                let total = (*k as usize % 40 + 1) * 4096;
                for i in 0..total {
                    let c = &base[i % base.len()];
                    let cl: Vec<Literal> = c.iter().map(|l| Literal::from(mapl(*l, stride))).collect();
                    guard(|| s.add_clause(cl)).map_err(|p| Failure::new(format!("{}/add_clause-panic", sigp), p))?;
                }
                if clauses.is_empty() {
                    clauses.push(vec![1, -2]);
                    declared = declared.max(2);
                }
            }
            SatOp::Reserve(r) => {
                let rr = *r as usize;
                let r = &(if *r == 0 { 0 } else { mapv(*r as usize, stride) });
                guard(|| s.reserve(*r)).map_err(|p| Failure::new(format!("{}/reserve-panic", sigp), p))?;
                // in abstract variable numbers: reserving mapv(r) declares the abstract variables 1..=r
                declared = declared.max(rr);
            }
            SatOp::Solve(assumptions) => {
                rec.eval();
                let al: Vec<Literal> = assumptions.iter().map(|l| Literal::from(mapl(*l, stride))).collect();
                let r = guard(|| if al.is_empty() { s.solve() } else { s.solve_under_assumptions(&al) });
                let r = match r {
                    Ok(r) => r,
                    Err(p) => {
                        let extra = fake.map(|f| f.illformed().join(" ;; ")).unwrap_or_default();
                        return Err(Failure::new(format!("{}/solve-panic", sigp), format!("op {}: {} {}", k, p, extra)));
                    }
                };
                let nv_all = declared.max(assumptions.iter().map(|l| l.unsigned_abs() as usize).max().unwrap_or(0));
                let expected_sat = brute(&clauses, assumptions, nv_all);
                match r {
                    SolvingResult::Unknown => {
                        let extra = fake.map(|f| f.illformed().join(" ;; ")).unwrap_or_default();
                        let why = if extra.contains("header declares") && extra.contains("variables but variable") {
                            "unknown-with-healthy-backend/dimacs-header-variable-count-too-small"
                        } else if !extra.is_empty() {
                            "unknown-with-healthy-backend/ill-formed-dimacs"
                        } else {
                            "unknown-with-healthy-backend"
                        };
                        return Err(Failure::new(
                            format!("{}/{}", sigp, why),
                            format!("op {} assumptions {:?} clauses {:?}: {}", k, assumptions, clauses, extra),
                        ));
                    }
                    SolvingResult::Unsatisfiable => {
                        if expected_sat {
                            return Err(Failure::new(
                                format!("{}/unsat-reported-but-model-exists", sigp),
                                format!("op {} assumptions {:?} clauses {:?}", k, assumptions, clauses),
                            ));
                        }
                        verdicts.push(Verdict::Unsat);
                    }
                    SolvingResult::Satisfiable(m) => {
                        if !expected_sat {
                            return Err(Failure::new(
                                format!("{}/model-reported-but-unsatisfiable", sigp),
                                format!("op {} assumptions {:?} clauses {:?}", k, assumptions, clauses),
                            ));
                        }
                        // value_of callable for every declared variable and every assumed variable
                        let mut vals: Vec<Option<bool>> = vec![None; nv_all + 1];
                        let mut need: Vec<usize> = (1..=declared).collect();
                        need.extend(assumptions.iter().map(|l| l.unsigned_abs() as usize));
                        for v in need {
                            match guard(|| m.value_of(mapv(v, stride))) {
                                Ok(x) => vals[v] = x,
                                Err(p) => {
                                    return Err(Failure::new(
                                        format!("{}/value_of-panics-for-declared-variable", sigp),
                                        format!("op {} variable {} (declared {}, assumptions {:?}): {}", k, v, declared, assumptions, p),
                                    ))
                                }
                            }
                        }
                        let holds = |l: i8| vals[l.unsigned_abs() as usize] == Some(l > 0);
                        for a in assumptions {
                            if !holds(*a) {
                                return Err(Failure::new(
                                    format!("{}/model-violates-assumption", sigp),
                                    format!("op {} assumption {} model {:?}", k, a, vals),
                                ));
                            }
                        }
                        for c in &clauses {
                            if !c.iter().any(|l| holds(*l)) {
                                return Err(Failure::new(
                                    format!("{}/model-violates-clause", sigp),
                                    format!("op {} clause {:?} model {:?}", k, c, vals),
                                ));
                            }
                        }
                        verdicts.push(Verdict::Sat);
                    }
                }
                let nv = guard(|| s.n_vars()).map_err(|p| Failure::new(format!("{}/n_vars-panic", sigp), p))?;
                if declared > 0 && nv < mapv(declared, stride) {
                    return Err(Failure::new(
                        format!("{}/n_vars-below-declared", sigp),
                        format!("n_vars {} declared {}", nv, declared),
                    ));
                }
            }
        }
    }
    Ok(verdicts)
}

/// The embedded backend alone (used by the libFuzzer target).
pub fn run_embedded_only(case: &SatCase) -> Result<(), Failure> {
    let mut rec = Rec::default();
    run_backend("CadicalSolver", &embedded(), case, &mut rec, None).map(|_| ())
}

impl Prop for SatObj {
    type Case = SatCase;
    fn id(&self) -> &'static str {
        "C15"
    }
    fn rule(&self) -> String {
        "Sequences (up to 24 operations, one in ten up to 144; thorough 60/360) of add_clause (0-9 literals, repeated and complementary literals inside a clause, over 12 abstract variables, mapped to solver variables (v-1)*stride+1 with stride in {1,3,16,63,64,65,128} so that variable numbers up to ~1800 and all residues occur, repeated/complementary literals, the empty clause), reserve(k) (also after solve calls and below the current count), a rare bulk operation that re-adds the current clauses 4096-163840 times (DIMACS text up to several MiB, semantics unchanged), solve and solve_under_assumptions (0-4 literals over 14 variables, i.e. also never-seen and only-reserved ones, possibly contradictory), optionally after a structured prefix (pigeonhole 3/2, implication chain), run on CadicalSolver, ExternalSatSolver(fake_sat, strict DIMACS validation) and ExternalSatSolver(kissat -q) when installed. Every verdict is compared with brute force over the accumulated clauses and that call's assumptions; models must satisfy every clause and assumption by definite values and be queryable for every declared/assumed variable. Non-trivial: >=2 solve calls with a clause added in between and a call whose assumptions flip the verdict; distinct = operation sequence.".into()
    }
    fn assumptions(&self) -> Vec<String> {
        vec!["brute force over <=2^14 assignments".into(), "fake_sat / kissat are healthy backends".into()]
    }
    fn strategy(&self, tier: Tier) -> BoxedStrategy<SatCase> {
        let maxlen = tier.pick(24usize, 60usize);
        (structured(), prop_oneof![9 => vec(op_with_bulk(), 1..=maxlen), 1 => vec(op_with_bulk(), maxlen..=6 * maxlen)], prop_oneof![5 => Just(1u8), 1 => Just(3u8), 1 => Just(16u8), 1 => Just(63u8), 2 => Just(64u8), 1 => Just(65u8), 1 => Just(128u8)])
            .prop_map(|(mut pre, ops, stride)| {
                pre.extend(ops);
                pre.push(SatOp::Solve(vec![]));
                SatCase { ops: pre, stride }
            })
            .boxed()
    }
    fn n_cases(&self, tier: Tier) -> u32 {
        tier.pick(5_000, 60_000)
    }
    fn extra_phase(&self, tier: Tier, seed: u64, rec: &mut Rec) -> Result<(), (SatCase, Failure)> {
        let seeds: Vec<Vec<u8>> = (0..8u8).map(|k| (0..96u8).map(|i| i.wrapping_mul(29).wrapping_add(k.wrapping_mul(7))).collect()).collect();
        crate::fuzzphase::fuzz_phase::<SatCase>("sat_ops", tier, seed, rec, seeds, 1_000_000, 400)
    }
    fn run(&self, case: &SatCase, rec: &mut Rec) -> CheckResult {
        let fake = FakeSat::get();
        fake.configure(json!({}));
        let v_emb = run_backend("CadicalSolver", &embedded(), case, rec, None)?;
        let v_fake = run_backend("ExternalSatSolver-fake_sat", &fake.backend(), case, rec, Some(&fake))?;
        let bad = fake.illformed();
        if !bad.is_empty() {
            let why = if bad[0].contains("variables but variable") { "dimacs-header-variable-count-too-small" } else { "ill-formed-dimacs" };
            return Err(Failure::new(format!("C15/ExternalSatSolver-fake_sat/{}", why), bad.join(" ;; ")));
        }
        if v_emb != v_fake {
            return Err(Failure::new("C15/backends-disagree", format!("{:?} vs {:?}", v_emb, v_fake)));
        }
        if let Some(k) = kissat_backend() {
            let v_k = run_backend("ExternalSatSolver-kissat", &k, case, rec, None)?;
            if v_emb != v_k {
                return Err(Failure::new("C15/backends-disagree-kissat", format!("{:?} vs {:?}", v_emb, v_k)));
            }
            rec.class("kissat-used");
        }
        // non-triviality
        let mut solves = 0;
        let mut add_between = false;
        let mut added_since = false;
        let mut flip = false;
        let mut clauses: Vec<Vec<i8>> = vec![];
        for op in &case.ops {
            match op {
                SatOp::Add(c) => {
                    clauses.push(c.clone());
                    added_since = true;
                }
                SatOp::Reserve(_) => {}
                SatOp::Bulk(_) => {
                    if clauses.is_empty() {
                        clauses.push(vec![1, -2]);
                    }
                    rec.class("bulk-clauses");
                }
                SatOp::Solve(a) => {
                    if solves >= 1 && added_since {
                        add_between = true;
                    }
                    added_since = false;
                    solves += 1;
                    if !a.is_empty() && brute(&clauses, a, 14) != brute(&clauses, &[], 14) {
                        flip = true;
                    }
                    if a.iter().any(|l| !clauses.iter().flatten().any(|x| x.unsigned_abs() == l.unsigned_abs())) {
                        rec.class("assumption-on-unseen-variable");
                    }
                }
            }
        }
        if v_emb.contains(&Verdict::Unsat) {
            rec.class("has-unsat-verdict");
        }
        if solves >= 2 && add_between && flip && rec.nontrivial(&case.ops) {
            rec.sample_sized(case.ops.len(), || json!({"ops": case.ops, "verdicts": format!("{:?}", v_emb)}));
        }
        Ok(())
    }
}
