//! C12: the framework store against a plain set model, under any update history.

use crate::engine::{CheckResult, Failure, Prop, Rec, Tier};
use crate::util::guard;
use crustabri::aa::{AAFramework, ArgumentSet};
use crustabri::utils::LabelType;
use proptest::collection::vec;
use proptest::prelude::*;
use serde::{Deserialize, Serialize};
use serde_json::json;
use std::collections::{BTreeMap, BTreeSet};

#[derive(Clone, Debug, PartialEq, Eq, Hash, Serialize, Deserialize)]
pub enum StoreOp {
    NewArg(u8),
    RemArg(u8),
    NewAtt(u8, u8),
    RemAtt(u8, u8),
}

#[derive(Clone, Debug, Serialize, Deserialize)]
pub struct StoreCase {
    /// label universe size (labels 0..universe)
    pub universe: u8,
    pub string_labels: bool,
    /// labels of a type whose `Hash` is much coarser than its `Eq` (legal for `LabelType`): most labels of
    /// the universe collide in every hash table
    #[serde(default)]
    pub coarse: bool,
    /// > 0: before the generated operations every label of the universe is created and the labels
    /// 1..=hub_prefix each attack, and are attacked by, label 0 - adjacency lists of that length (64 and
    /// more) exist from the start, and the generated operations (biased to low labels) then remove and
    /// re-add entries in their middle
    #[serde(default)]
    pub hub_prefix: u8,
    /// > 0: before the generated operations, `churn` rounds of "label 0 attacks label 1+k%(u-1), that label is
    /// removed and created again": every round leaves one stale entry in the adjacency lists of label 0, so
    /// that lists of a thousand entries (thresholds such as 1024) exist when the generated operations start
    #[serde(default)]
    pub churn: u16,
    pub initial: Vec<u8>,
    pub ops: Vec<StoreOp>,
}

pub struct Store;

#[derive(Default, Clone)]
pub struct SetModel {
    /// label -> id observed at creation
    pub live: BTreeMap<u8, usize>,
    pub dead_ids: BTreeSet<usize>,
    pub atts: BTreeSet<(u8, u8)>,
}

pub fn label_string(l: u8) -> String {
    format!("arg_{}", l)
}

pub trait MkLabel: LabelType + Ord {
    fn mk(l: u8) -> Self;
}
impl MkLabel for usize {
    fn mk(l: u8) -> usize {
        l as usize * 3 + 1
    }
}
impl MkLabel for String {
    fn mk(l: u8) -> String {
        label_string(l)
    }
}

/// A label type that is `Clone + Debug + Display + Eq + Hash` (all `LabelType` asks for) and whose hash
/// only looks at part of the value: labels that differ under `Eq` share hash values all the time.
#[derive(Clone, Debug, PartialEq, Eq, PartialOrd, Ord)]
pub struct Coarse {
    pub source: u8,
    pub name: u8,
}
impl std::hash::Hash for Coarse {
    fn hash<H: std::hash::Hasher>(&self, state: &mut H) {
        state.write_u8(self.name % 3);
    }
}
impl std::fmt::Display for Coarse {
    fn fmt(&self, f: &mut std::fmt::Formatter<'_>) -> std::fmt::Result {
        write!(f, "{}:{}", self.source, self.name)
    }
}
impl MkLabel for Coarse {
    fn mk(l: u8) -> Coarse {
        Coarse { source: l % 4, name: l / 4 }
    }
}

/// A label type whose `Eq` and `Hash` look at `key` only (legal for `LabelType`: think of a case-insensitive name
/// or a name carrying the line it was declared on): equal labels can be told apart through `payload` / Display,
/// so "inserting an existing argument changes nothing" becomes observable on the stored label itself.
#[derive(Clone, Debug)]
pub struct Keyed {
    pub key: u8,
    pub payload: u8,
}
impl PartialEq for Keyed {
    fn eq(&self, o: &Keyed) -> bool {
        self.key == o.key
    }
}
impl Eq for Keyed {}
impl std::hash::Hash for Keyed {
    fn hash<H: std::hash::Hasher>(&self, state: &mut H) {
        state.write_u8(self.key);
    }
}
impl std::fmt::Display for Keyed {
    fn fmt(&self, f: &mut std::fmt::Formatter<'_>) -> std::fmt::Result {
        write!(f, "{}#{}", self.key, self.payload)
    }
}

/// The history of a case replayed on labels of type `Keyed` (label l -> key l % 5, payload l / 5) against a
/// map key -> first payload inserted since the key was last absent, which is what a plain `HashSet` keeps.
pub fn run_keyed(case: &StoreCase, rec: &mut Rec) -> CheckResult {
    let mk = |l: u8| Keyed { key: l % 5, payload: l / 5 };
    let labels: Vec<Keyed> = case.initial.iter().map(|l| mk(*l)).collect();
    let mut model: std::collections::BTreeMap<u8, u8> = Default::default();
    for l in &labels {
        model.entry(l.key).or_insert(l.payload);
    }
    let mut redeclared = labels.len() != model.len();
    let observe = |af: &AAFramework<Keyed>, model: &std::collections::BTreeMap<u8, u8>, at: &str| -> CheckResult {
        if af.n_arguments() != model.len() {
            return Err(Failure::new("C12/keyed-labels/argument-count-differs-from-set-model", format!("{} arguments, model {:?} {}", af.n_arguments(), model, at)));
        }
        for (k, pl) in model {
            let got = af.argument_set().get_argument(&Keyed { key: *k, payload: 255 }).map(|a| (a.label().key, a.label().payload));
            if got.as_ref().ok() != Some(&(*k, *pl)) {
                return Err(Failure::new(
                    "C12/keyed-labels/stored-label-replaced-by-an-equal-one",
                    format!("key {} was first inserted with payload {}, the framework now exposes {:?} {}", k, pl, got.ok(), at),
                ));
            }
        }
        let mut seen: Vec<(u8, u8)> = af.argument_set().iter().map(|a| (a.label().key, a.label().payload)).collect();
        seen.sort();
        let want: Vec<(u8, u8)> = model.iter().map(|(k, p)| (*k, *p)).collect();
        if seen != want {
            return Err(Failure::new("C12/keyed-labels/iteration-differs-from-set-model", format!("iteration {:?}, model {:?} {}", seen, want, at)));
        }
        Ok(())
    };
    let r = guard(|| -> CheckResult {
        let mut af = AAFramework::new_with_argument_set(ArgumentSet::new_with_labels(&labels));
        observe(&af, &model, "after new_with_labels")?;
        for (k, op) in case.ops.iter().enumerate() {
            match op {
                StoreOp::NewArg(l) => {
                    let lab = mk(*l);
                    if model.contains_key(&lab.key) {
                        redeclared = true;
                    }
                    model.entry(lab.key).or_insert(lab.payload);
                    af.new_argument(lab);
                }
                StoreOp::RemArg(l) => {
                    let lab = mk(*l);
                    let was = model.remove(&lab.key).is_some();
                    if af.remove_argument(&lab).is_ok() != was {
                        return Err(Failure::new("C12/keyed-labels/remove_argument-outcome-differs-from-set-model", format!("op #{} {:?}", k, op)));
                    }
                }
                StoreOp::NewAtt(a, b) => {
                    let ok = af.new_attack(&mk(*a), &mk(*b)).is_ok();
                    if ok != (model.contains_key(&(a % 5)) && model.contains_key(&(b % 5))) {
                        return Err(Failure::new("C12/keyed-labels/new_attack-outcome-differs-from-set-model", format!("op #{} {:?}", k, op)));
                    }
                }
                StoreOp::RemAtt(a, b) => {
                    let _ = af.remove_attack(&mk(*a), &mk(*b));
                }
            }
            observe(&af, &model, &format!("after op #{} {:?}", k, op))?;
        }
        Ok(())
    });
    rec.eval();
    if redeclared {
        rec.class("keyed-labels-with-a-redeclared-equal-label");
    }
    match r {
        Ok(r) => r,
        Err(p) => Err(Failure::new("C12/keyed-labels/panic", p)),
    }
}

/// Compares everything observable with the model.
pub fn compare<T: MkLabel>(af: &AAFramework<T>, m: &SetModel, universe: u8, pid: &str) -> CheckResult {
    match guard(|| compare_inner(af, m, universe, pid)) {
        Ok(r) => r,
        Err(p) => Err(Failure::new(format!("{}/panic-while-observing-the-framework", pid), p)),
    }
}

fn compare_inner<T: MkLabel>(af: &AAFramework<T>, m: &SetModel, universe: u8, pid: &str) -> CheckResult {
    let fail = |what: &str, msg: String| Err(Failure::new(format!("{}/{}", pid, what), msg));
    if af.n_arguments() != m.live.len() {
        return fail("n_arguments", format!("{} vs model {}", af.n_arguments(), m.live.len()));
    }
    if af.argument_set().len() != m.live.len() || af.argument_set().is_empty() != m.live.is_empty() {
        return fail("argument_set-len-or-is_empty", format!("len {} is_empty {} model {}", af.argument_set().len(), af.argument_set().is_empty(), m.live.len()));
    }
    // iteration over arguments
    let mut seen_ids = BTreeSet::new();
    let mut seen_labels = BTreeSet::new();
    for a in af.argument_set().iter() {
        if !seen_ids.insert(a.id()) {
            return fail("duplicate-id-in-iteration", format!("id {}", a.id()));
        }
        seen_labels.insert(a.label().clone());
        if m.dead_ids.contains(&a.id()) {
            return fail("id-of-removed-argument-reused", format!("id {} label {}", a.id(), a.label()));
        }
    }
    let want_labels: BTreeSet<T> = m.live.keys().map(|l| T::mk(*l)).collect();
    if seen_labels != want_labels {
        return fail("argument-iteration-differs", format!("{:?} vs model {:?}", seen_labels, want_labels));
    }
    for l in 0..universe {
        let lab = T::mk(l);
        match (af.argument_set().get_argument(&lab), m.live.get(&l)) {
            (Ok(a), Some(id)) => {
                if a.id() != *id {
                    return fail("id-not-stable", format!("label {} has id {} but was created with id {}", lab, a.id(), id));
                }
                if a.label() != &lab {
                    return fail("get_argument-wrong-label", format!("{} vs {}", a.label(), lab));
                }
                if !af.argument_set().has_argument_with_id(*id) {
                    return fail("has_argument_with_id-false-for-live", format!("id {}", id));
                }
                let by_id = guard(|| af.argument_set().get_argument_by_id(*id).label().clone());
                if by_id.as_ref().ok() != Some(&lab) {
                    return fail("get_argument_by_id-wrong", format!("id {} -> {:?}", id, by_id.map(|l| l.to_string())));
                }
            }
            (Err(_), None) => {}
            (Ok(_), None) => return fail("get_argument-finds-removed-or-unknown", format!("label {}", lab)),
            (Err(_), Some(_)) => return fail("get_argument-misses-live", format!("label {}", lab)),
        }
    }
    for id in &m.dead_ids {
        if af.argument_set().has_argument_with_id(*id) {
            return fail("has_argument_with_id-true-for-removed", format!("id {}", id));
        }
    }
    if let Some(maxid) = m.live.values().chain(m.dead_ids.iter()).max() {
        if af.max_argument_id().map_or(true, |x| x < *maxid) {
            return fail("max_argument_id-too-small", format!("{:?} < {}", af.max_argument_id(), maxid));
        }
    }
    // attacks
    if af.n_attacks() != m.atts.len() {
        return fail("n_attacks", format!("{} vs model {}", af.n_attacks(), m.atts.len()));
    }
    let want: Vec<(T, T)> = {
        let mut v: Vec<(T, T)> = m.atts.iter().map(|(a, b)| (T::mk(*a), T::mk(*b))).collect();
        v.sort();
        v
    };
    let mut all: Vec<(T, T)> = af.iter_attacks().map(|t| (t.attacker().label().clone(), t.attacked().label().clone())).collect();
    all.sort();
    if all != want {
        return fail("iter_attacks-differs", format!("{:?} vs model {:?}", all, want));
    }
    for (l, _) in m.live.iter() {
        let lab = T::mk(*l);
        let arg = af.argument_set().get_argument(&lab).unwrap();
        let mut from: Vec<(T, T)> =
            af.iter_attacks_from(arg).map(|t| (t.attacker().label().clone(), t.attacked().label().clone())).collect();
        from.sort();
        let wf: Vec<(T, T)> = want.iter().filter(|(a, _)| *a == lab).cloned().collect();
        if from != wf {
            return fail("iter_attacks_from-differs", format!("from {}: {:?} vs model {:?}", lab, from, wf));
        }
        let mut to: Vec<(T, T)> =
            af.iter_attacks_to(arg).map(|t| (t.attacker().label().clone(), t.attacked().label().clone())).collect();
        to.sort();
        let mut wt: Vec<(T, T)> = want.iter().filter(|(_, b)| *b == lab).cloned().collect();
        wt.sort();
        if to != wt {
            return fail("iter_attacks_to-differs", format!("to {}: {:?} vs model {:?}", lab, to, wt));
        }
    }
    Ok(())
}

/// Applies one operation to both; checks the returned Result against the model's precondition.
pub fn apply<T: MkLabel>(af: &mut AAFramework<T>, m: &mut SetModel, op: &StoreOp, pid: &str) -> CheckResult {
    let fail = |what: &str, msg: String| Err(Failure::new(format!("{}/{}", pid, what), msg));
    match op {
        StoreOp::NewArg(l) => {
            let before_max = af.max_argument_id();
            guard(|| af.new_argument(T::mk(*l))).map_err(|p| Failure::new(format!("{}/new_argument-panic", pid), p))?;
            if !m.live.contains_key(l) {
                let id = match af.argument_set().get_argument(&T::mk(*l)) {
                    Ok(a) => a.id(),
                    Err(_) => return fail("new_argument-not-inserted", format!("label {}", l)),
                };
                if m.dead_ids.contains(&id) || m.live.values().any(|x| *x == id) {
                    return fail("id-reused", format!("new argument {} got id {} (max id before: {:?})", l, id, before_max));
                }
                m.live.insert(*l, id);
            }
        }
        StoreOp::RemArg(l) => {
            let r = guard(|| af.remove_argument(&T::mk(*l)).map_err(|e| e.to_string()))
                .map_err(|p| Failure::new(format!("{}/remove_argument-panic", pid), p))?;
            match (r, m.live.get(l).copied()) {
                (Ok(()), Some(id)) => {
                    m.live.remove(l);
                    m.dead_ids.insert(id);
                    m.atts.retain(|(a, b)| a != l && b != l);
                }
                (Err(_), None) => {}
                (Ok(()), None) => return fail("remove_argument-ok-on-unknown", format!("label {}", l)),
                (Err(e), Some(_)) => return fail("remove_argument-err-on-live", e),
            }
        }
        StoreOp::NewAtt(a, b) => {
            let r = guard(|| af.new_attack(&T::mk(*a), &T::mk(*b)).map_err(|e| e.to_string()))
                .map_err(|p| Failure::new(format!("{}/new_attack-panic", pid), p))?;
            let valid = m.live.contains_key(a) && m.live.contains_key(b);
            match (r, valid) {
                (Ok(()), true) => {
                    m.atts.insert((*a, *b));
                }
                (Err(_), false) => {}
                (Ok(()), false) => return fail("new_attack-ok-on-unknown-argument", format!("{} -> {}", a, b)),
                (Err(e), true) => return fail("new_attack-err-on-valid", e),
            }
        }
        StoreOp::RemAtt(a, b) => {
            let r = guard(|| af.remove_attack(&T::mk(*a), &T::mk(*b)).map_err(|e| e.to_string()))
                .map_err(|p| Failure::new(format!("{}/remove_attack-panic", pid), p))?;
            let present = m.atts.contains(&(*a, *b));
            match (r, present) {
                (Ok(()), true) => {
                    m.atts.remove(&(*a, *b));
                }
                (Err(_), false) => {}
                (Ok(()), false) => return fail("remove_attack-ok-on-absent", format!("{} -> {}", a, b)),
                (Err(e), true) => return fail("remove_attack-err-on-present", e),
            }
        }
    }
    Ok(())
}

pub fn initial<T: MkLabel>(init: &[u8]) -> (AAFramework<T>, SetModel) {
    let labels: Vec<T> = init.iter().map(|l| T::mk(*l)).collect();
    let af = AAFramework::new_with_argument_set(ArgumentSet::new_with_labels(&labels));
    let mut m = SetModel::default();
    for l in init {
        if !m.live.contains_key(l) {
            let id = af.argument_set().get_argument(&T::mk(*l)).map(|a| a.id()).unwrap_or(usize::MAX);
            m.live.insert(*l, id);
        }
    }
    (af, m)
}

impl Store {
    fn run_generic<T: MkLabel>(&self, case: &StoreCase, rec: &mut Rec) -> CheckResult {
        let (mut af, mut m) = initial::<T>(&case.initial);
        compare(&af, &m, case.universe, "C12").map_err(|mut f| {
            f.signature = format!("{}/after-new_with_labels", f.signature);
            f
        })?;
        let mut interesting_removal_at: Option<usize> = None;
        let mut all_ops: Vec<StoreOp> = vec![];
        if case.hub_prefix > 0 {
            for l in 0..case.universe {
                all_ops.push(StoreOp::NewArg(l));
            }
            for l in 1..=case.hub_prefix.min(case.universe.saturating_sub(1)) {
                all_ops.push(StoreOp::NewAtt(l, 0));
                all_ops.push(StoreOp::NewAtt(0, l));
            }
            rec.class(&format!("hub-with-{}+-attackers-from-the-start", (case.hub_prefix / 32) * 32));
        }
        if case.churn > 0 && case.universe >= 2 {
            all_ops.push(StoreOp::NewArg(0));
            for k in 0..case.churn as usize {
                let l = 1 + (k % (case.universe as usize - 1)) as u8;
                all_ops.push(StoreOp::NewArg(l));
                all_ops.push(StoreOp::NewAtt(0, l));
                if k % 2 == 0 {
                    all_ops.push(StoreOp::NewAtt(l, 0));
                }
                all_ops.push(StoreOp::RemArg(l));
            }
            rec.class(&format!("churn-{}+-stale-entries-from-the-start", (case.churn / 256) * 256));
        }
        let churn_len = all_ops.len();
        all_ops.extend(case.ops.iter().cloned());
        for (k, op) in all_ops.iter().enumerate() {
            rec.eval();
            if let StoreOp::RemArg(l) = op {
                if m.live.contains_key(l) {
                    let selfa = m.atts.contains(&(*l, *l));
                    let inc = m.atts.iter().any(|(a, b)| b == l && a != l);
                    let out = m.atts.iter().any(|(a, b)| a == l && b != l);
                    if selfa || (inc && out) {
                        interesting_removal_at.get_or_insert(k);
                    }
                }
            }
            // (the model's live part is small; its set of dead ids, which only grows, is not copied)
            let before = (m.live.clone(), m.atts.clone());
            let n_before = (af.n_arguments(), af.n_attacks());
            apply(&mut af, &mut m, op, "C12").map_err(|mut f| {
                f.message = format!("{} | op #{} {:?}", f.message, k, op);
                f
            })?;
            let unchanged = before.0 == m.live && before.1 == m.atts;
            if unchanged && n_before != (af.n_arguments(), af.n_attacks()) {
                return Err(Failure::new("C12/rejected-or-redundant-update-changed-counts", format!("op #{} {:?}", k, op)));
            }
            // during a churn prefix of tens of thousands of rounds the whole-state comparison (linear in the
            // number of ids ever issued) runs every 2048th step and on its last 64 steps
            if churn_len > 8_000 && k + 64 < churn_len && k % 2_048 != 0 {
                continue;
            }
            compare(&af, &m, case.universe, "C12").map_err(|mut f| {
                f.message = format!("{} | after op #{} {:?}", f.message, k, op);
                f
            })?;
        }
        if let Some(k) = interesting_removal_at {
            if case.ops.len() >= k + 4 && rec.nontrivial(&(case.string_labels, case.coarse, &case.initial, &case.ops)) {
                rec.sample_sized(case.ops.len(), || json!({"case": case}));
            }
        }
        Ok(())
    }
}

pub fn store_op(universe: u8) -> impl Strategy<Value = StoreOp> {
    // labels are drawn with a bias towards a few "hub" labels so that long adjacency lists arise
    let hubs = (universe / 8).max(1);
    let l = move || prop_oneof![3 => 0..universe, 2 => 0..hubs];
    prop_oneof![
        20 => (0..universe).prop_map(StoreOp::NewArg),
        10 => (0..universe).prop_map(StoreOp::RemArg),
        40 => (0..universe, l()).prop_map(|(a, b)| StoreOp::NewAtt(a, b)),
        8 => (l(), 0..universe).prop_map(|(a, b)| StoreOp::NewAtt(a, b)),
        15 => (0..universe, l()).prop_map(|(a, b)| StoreOp::RemAtt(a, b)),
    ]
}

impl Prop for Store {
    type Case = StoreCase;
    fn id(&self) -> &'static str {
        "C12"
    }
    fn rule(&self) -> String {
        "Histories of 0-200 (quick) / 0-600 (thorough) operations new_argument / remove_argument / new_attack / remove_attack over a universe of 4-8 labels (80%) or 20-120 labels with a bias towards a few hub labels (20%, histories twice as long, so that adjacency lists of several dozen entries and ids in the hundreds arise) (labels of type usize, String, or a type whose Hash is coarser than its Eq), operands arbitrary (known or unknown, self-attacks, re-insertion, repeated removal), starting from new_with_labels with possibly repeated labels. After every step the whole observable state (counts, argument iteration, get_argument / get_argument_by_id / has_argument_with_id for every id ever issued, iter_attacks as a multiset, iter_attacks_from/to of every live argument) is compared with a set model, the returned Result with the model's precondition, ids with uniqueness / stability / no reuse. Non-trivial: the history removes an argument that has a self-attack or both incoming and outgoing attacks and goes on for >=3 more operations; distinct = history. Every history without a hub or churn prefix is also replayed on a label type whose Eq and Hash ignore part of the value (key = l % 5, payload = l / 5): after every step the framework must expose, for each live key, the payload that was inserted FIRST since the key was last absent (what a plain HashSet keeps), with the same count and iteration.".into()
    }
    fn assumptions(&self) -> Vec<String> {
        vec!["the set model (BTreeMap/BTreeSet)".into(), "ids need not equal the insertion rank (mechanism, not checked)".into()]
    }
    fn strategy(&self, tier: Tier) -> BoxedStrategy<StoreCase> {
        let maxlen = tier.pick(200usize, 600usize);
        // small universes (dense interaction) and large ones (long adjacency lists, many ids)
        (prop_oneof![16 => 4u8..=8, 3 => 20u8..=48, 2 => 60u8..=120], prop_oneof![3 => Just((false, false)), 3 => Just((true, false)), 2 => Just((false, true))])
            .prop_flat_map(move |(universe, (string_labels, coarse))| {
                let init_max = if universe > 8 { universe as usize } else { 6 };
                let len = if universe > 8 { maxlen * 2 } else { maxlen };
                // one large-universe case in three starts with a hub of 30..universe-1 attackers
                let hub = if universe >= 40 { prop_oneof![2 => Just(0u8), 1 => 30u8..universe].boxed() } else { Just(0u8).boxed() };
                // one small-universe history in 400 starts with 1000-1040 rounds of churn on label 0
                let churn = if universe <= 8 { prop_oneof![399 => Just(0u16), 1 => 1000u16..1040].boxed() } else { Just(0u16).boxed() };
                (vec(0..universe, 0..=init_max), vec(store_op(universe), 0..=len), hub, churn).prop_map(move |(initial, ops, hub_prefix, churn)| StoreCase {
                    universe,
                    string_labels,
                    coarse,
                    hub_prefix,
                    churn,
                    initial,
                    ops,
                })
            })
            .boxed()
    }
    fn max_shrink_iters(&self) -> u32 {
        // histories over 120 labels with a hub prefix take a second per shrink step
        1_500
    }
    fn n_cases(&self, tier: Tier) -> u32 {
        tier.pick(200_000, 1_500_000)
    }
    fn enumerated(&self, tier: Tier) -> (Vec<StoreCase>, String) {
        // every history of bounded length over two labels
        let maxlen = tier.pick(4usize, 5usize);
        let mut alphabet = vec![];
        for a in 0..2u8 {
            alphabet.push(StoreOp::NewArg(a));
            alphabet.push(StoreOp::RemArg(a));
            for b in 0..2u8 {
                alphabet.push(StoreOp::NewAtt(a, b));
                alphabet.push(StoreOp::RemAtt(a, b));
            }
        }
        let mut out = vec![];
        let mut frontier: Vec<Vec<StoreOp>> = vec![vec![]];
        for _ in 0..maxlen {
            let mut next = vec![];
            for h in &frontier {
                for op in &alphabet {
                    let mut h2 = h.clone();
                    h2.push(op.clone());
                    next.push(h2);
                }
            }
            // only maximal-length histories are needed: every prefix is compared step by step
            frontier = next;
        }
        for (i, ops) in frontier.into_iter().enumerate() {
            out.push(StoreCase { universe: 2, string_labels: i % 3 == 0, coarse: i % 3 == 1, hub_prefix: 0, churn: 0, initial: vec![], ops });
        }
        // one framework object that lives through 44 000 rounds of churn (more than 2^16 removed attacks and
        // 2^15 argument ids), followed by a few ordinary operations
        out.push(StoreCase {
            universe: 6,
            string_labels: false,
            coarse: false,
            hub_prefix: 0,
            churn: 44_000,
            initial: vec![],
            ops: vec![StoreOp::NewArg(1), StoreOp::NewArg(2), StoreOp::NewAtt(1, 2), StoreOp::NewAtt(2, 1), StoreOp::NewAtt(0, 2), StoreOp::RemArg(1), StoreOp::NewArg(1), StoreOp::RemAtt(0, 2)],
        });
        (out, format!("all {}-step histories over two labels (12 operations per step), every prefix compared", maxlen))
    }
    fn extra_phase(&self, tier: Tier, seed: u64, rec: &mut Rec) -> Result<(), (StoreCase, Failure)> {
        let seeds: Vec<Vec<u8>> = (0..8u8).map(|k| (0..64u8).map(|i| i.wrapping_mul(37).wrapping_add(k.wrapping_mul(11))).collect()).collect();
        crate::fuzzphase::fuzz_phase::<StoreCase>("store_ops", tier, seed, rec, seeds, 2_000_000, 600)
    }
    fn run(&self, case: &StoreCase, rec: &mut Rec) -> CheckResult {
        rec.class(if case.coarse {
            "labels-with-coarse-hash"
        } else if case.string_labels {
            "string-labels"
        } else {
            "usize-labels"
        });
        // every history is also replayed on labels whose Eq ignores part of the value (unless its generated part is
        // preceded by a hub or churn prefix, which the keyed replay does not build)
        if case.hub_prefix == 0 && case.churn == 0 {
            run_keyed(case, rec)?;
        }
        if case.coarse {
            self.run_generic::<Coarse>(case, rec)
        } else if case.string_labels {
            self.run_generic::<String>(case, rec)
        } else {
            self.run_generic::<usize>(case, rec)
        }
    }
}
