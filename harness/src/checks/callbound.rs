//! C18: every query terminates within a bounded number of SAT calls.

use crate::build::{build, Built};
use crate::checks::dynamic::{self, DynCase, DynKind, Model, OpT, FACTORS};
use crate::checks::faults::ProblemCase;
use crate::checks::statics::enc_feasible;
use crate::engine::{CheckResult, Failure, Prop, Rec, Tier};
use crate::gen::{self, idx, GraphCase};
use crate::oracle::{Fams, Sem, ALL_SEMS, G};
use crate::problem::{check_answer, run_problem};
use crate::queries::{base_of, encodings_for, kind_for, Enc, Kind, Q};
use crate::satwrap::{self, CallResult, CapExceeded, Shared};
use proptest::collection::vec;
use proptest::prelude::*;
use serde::{Deserialize, Serialize};
use serde_json::json;
use std::panic::{catch_unwind, AssertUnwindSafe};

#[derive(Clone, Debug, Serialize, Deserialize)]
pub enum BoundCase {
    Static(ProblemCase),
    DynamicPr(DynCase),
    /// several queries on ONE solver object: each query has its own bound
    Script(crate::checks::config::ConfigCase),
    /// a list query put to the complete and stable solvers: at most two calls per component
    List(crate::checks::multi::MultiCase),
}

pub struct CallBound;

fn base_size(f: &Fams, enc: Enc) -> usize {
    match base_of(enc) {
        "cf" => f.cf.len(),
        "adm" => f.adm.len(),
        "st" => f.st.len(),
        _ => f.co.len(),
    }
}

/// The bound of the property for one connected component (or, for `whole`, the framework as one piece).
pub fn bound_for(kind: Kind, enc: Enc, f: &Fams, n: usize) -> usize {
    match kind {
        Kind::Gr => 0,
        Kind::Co | Kind::St => 2,
        Kind::Pr => base_size(f, enc) + f.pr.len() + 1,
        Kind::Id => 2 * base_size(f, enc) + f.pr.len() + 2,
        Kind::Sst | Kind::Stg => (n + 2) * base_size(f, enc) + 3,
    }
}

impl CallBound {
    fn stat(&self, pc: &ProblemCase, rec: &mut Rec) -> CheckResult {
        let encs = encodings_for(pc.q, pc.sem);
        let enc = encs[pc.enc_pick as usize % encs.len()];
        if !enc_feasible(enc, &pc.gc.g, &pc.gc.pres) {
            return Ok(());
        }
        let g = G::new(pc.gc.g.n, &pc.gc.g.att_usize());
        // graphs of 14-24 arguments: the backtracking reference knows the complete and stable families, so the
        // bounds whose base is the conflict-free or admissible family are not judged there
        let fams_for = |g: &G| -> Option<Fams> {
            if g.n > 13 {
                Fams::new_medium(g)
            } else {
                Some(Fams::new(g))
            }
        };
        if g.n > 13 {
            if matches!(base_of(enc), "cf" | "adm") {
                return Ok(());
            }
            rec.class("medium-size-graph-14-24-arguments");
        }
        let fams = match fams_for(&g) {
            Some(f) => f,
            None => return Ok(()),
        };
        let a = idx(pc.arg, g.n.max(1));
        let kind = kind_for(pc.q, pc.sem);
        let comps = g.components();
        let mut per_comp = 0usize;
        for c in &comps {
            let (sub, _) = g.induced(*c);
            match fams_for(&sub) {
                Some(f) => per_comp += bound_for(kind, enc, &f, sub.n),
                None => return Ok(()),
            }
        }
        let connected = comps.len() <= 1;
        // the property bounds each component; a framework treated as one piece is bounded likewise
        let bound = if connected { per_comp } else { per_comp.max(bound_for(kind, enc, &fams, g.n)) };
        let name = format!("{}-{}", pc.q.name(), pc.sem.name());
        let sig = format!("C18/{}/{}", name, enc.name());
        rec.eval();
        let shared = Shared::recording(bound);
        let r = catch_unwind(AssertUnwindSafe(|| match build(&pc.gc) {
            Built::U(af, labels) => run_problem(&af, &labels, pc.q, pc.sem, enc, a, pc.cert, satwrap::factory(&shared)),
            Built::S(af, labels) => run_problem(&af, &labels, pc.q, pc.sem, enc, a, pc.cert, satwrap::factory(&shared)),
            Built::C(af, labels) => run_problem(&af, &labels, pc.q, pc.sem, enc, a, pc.cert, satwrap::factory(&shared)),
        }));
        let calls = shared.n_calls();
        let r = match r {
            Err(p) => {
                if p.downcast_ref::<CapExceeded>().is_some() {
                    return Err(Failure::new(
                        format!("{}/more-sat-calls-than-the-bound", sig),
                        format!(
                            "call {} exceeds the bound {} ({} component(s), n={}, |base|={}, |PR|={}); the query was aborted there",
                            calls,
                            bound,
                            comps.len(),
                            g.n,
                            base_size(&fams, enc),
                            fams.pr.len()
                        ),
                    ));
                }
                std::panic::resume_unwind(p)
            }
            Ok(r) => r,
        };
        match r {
            Err(p) => return Err(Failure::new(format!("{}/panic", sig), p)),
            Ok(Err(m)) => return Err(Failure::new(format!("{}/invalid-set", sig), m)),
            Ok(Ok(ans)) => {
                if let Err((what, msg)) = check_answer(&ans, &fams, pc.q, pc.sem, a, pc.cert) {
                    return Err(Failure::new(format!("{}/wrong-answer/{}", sig, what), msg));
                }
            }
        }
        if bound > 0 {
            let pct = calls * 100 / bound;
            rec.class(&format!("calls-vs-bound-{:03}%", (pct / 20) * 20));
        }
        // candidate sets are not examined twice (connected frameworks, one solver instance)
        if connected && matches!(kind, Kind::Pr | Kind::Id) {
            let n = g.n;
            let allowed = if kind == Kind::Pr { 1 } else { 2 };
            // the encoder's argument variables for a compact framework of n arguments (as a set)
            let arg_vars: Vec<usize> = {
                let dummy = crustabri::aa::AAFramework::new_with_argument_set(crustabri::aa::ArgumentSet::new_with_labels(
                    &(0..n).collect::<Vec<usize>>(),
                ));
                let e = crate::queries::encoder::<usize>(enc);
                dummy.argument_set().iter().map(|a| isize::from(e.arg_to_lit(a)) as usize).collect()
            };
            for inst in shared.instances.borrow().iter() {
                // The search starts from the grounded extension (computed without SAT) and every satisfiable call
                // must bring a candidate that was not examined before: pairwise distinct models, none of them the
                // grounded extension again. Hence at most |base|-1 satisfiable calls for the preferred search.
                let n_sat = inst.calls.iter().filter(|c| matches!(c.result, CallResult::Sat(_))).count();
                if kind == Kind::Pr && n_sat + 1 > base_size(&fams, enc).max(1) {
                    return Err(Failure::new(
                        format!("{}/more-satisfiable-calls-than-candidate-sets", sig),
                        format!(
                            "{} satisfiable SAT calls on one solver instance although only {} candidate sets exist besides the starting (grounded) one: a candidate was examined twice",
                            n_sat,
                            base_size(&fams, enc).saturating_sub(1)
                        ),
                    ));
                }
                let mut seen: std::collections::BTreeMap<Vec<bool>, usize> = Default::default();
                for c in &inst.calls {
                    if let CallResult::Sat(vals) = &c.result {
                        let proj: Vec<bool> = arg_vars.iter().map(|v| vals.get(*v - 1).copied().flatten().unwrap_or(false)).collect();
                        let k = seen.entry(proj.clone()).or_default();
                        *k += 1;
                        if *k > allowed {
                            return Err(Failure::new(
                                format!("{}/candidate-set-examined-more-than-{}-time(s)", sig, allowed),
                                format!("projection {:?} returned {} times by one solver instance ({} calls)", proj, k, inst.calls.len()),
                            ));
                        }
                    }
                }
            }
        }
        let nt_base = base_size(&fams, enc) >= 3 && (fams.pr.len() >= 2 || fams.sst.len() >= 2 || fams.stg.len() >= 2);
        if nt_base && kind != Kind::Gr && rec.nontrivial(&serde_json::to_string(pc).unwrap()) {
            rec.sample_sized(calls, || json!({"case": pc, "problem": name, "encoding": enc.name(), "calls": calls, "bound": bound, "components": comps.len()}));
        }
        if connected {
            rec.class("connected");
        } else {
            rec.class("multi-component");
        }
        Ok(())
    }

    /// "CO and ST need at most two calls per component", also when 1-3 arguments spread over several
    /// components are queried at once and when a certificate has to be completed on the other components:
    /// every SAT solver instance the query creates (one per component it works on) may be called twice at
    /// most, and the whole query 2 x (number of components) times.
    fn list(&self, mc: &crate::checks::multi::MultiCase, rec: &mut Rec) -> CheckResult {
        use crate::queries::SolverObj;
        if mc.gc.g.n == 0 || mc.picks.is_empty() || mc.gc.g.n > 13 {
            return Ok(());
        }
        let g = G::new(mc.gc.g.n, &mc.gc.g.att_usize());
        let ncomp = g.components().len();
        let list = crate::checks::multi::resolve_picks(&g, &mc.gc.g.att, mc.mode % 3, &mc.picks);
        rec.class(&format!("list-query-on-{}-components", ncomp.min(4)));
        macro_rules! go {
            ($af:expr, $labels:expr) => {{
                let refs: Vec<_> = list.iter().map(|a| &$labels[*a]).collect();
                for (q, sem, enc) in [(Q::DC, Sem::CO, Enc::AuxCo), (Q::DC, Sem::ST, Enc::Stable), (Q::DS, Sem::ST, Enc::Stable)] {
                    for cert in [false, true] {
                        rec.eval();
                        let shared = Shared::recording(usize::MAX);
                        let r = crate::util::guard(|| {
                            let mut s = SolverObj::new($af, kind_for(q, sem), enc, satwrap::factory(&shared));
                            if q == Q::DC {
                                s.dc(&refs, cert).0
                            } else {
                                s.ds(&refs, cert).0
                            }
                        });
                        let sig = format!("C18/list/{}-{}/{}", q.name(), sem.name(), if cert { "with-certificate" } else { "plain" });
                        if let Err(p) = r {
                            return Err(Failure::new(format!("{}/panic", sig), p));
                        }
                        let per_instance: Vec<usize> = shared.instances.borrow().iter().map(|i| i.calls.len()).collect();
                        let total: usize = per_instance.iter().sum();
                        if per_instance.iter().any(|c| *c > 2) || total > 2 * ncomp {
                            return Err(Failure::new(
                                format!("{}/more-than-two-calls-per-component", sig),
                                format!("list {:?}: SAT calls per solver instance {:?} (total {}) on a framework of {} component(s)", list, per_instance, total, ncomp),
                            ));
                        }
                    }
                }
                Ok(())
            }};
        }
        match build(&mc.gc) {
            Built::U(af, labels) => go!(&af, labels),
            Built::S(af, labels) => go!(&af, labels),
            Built::C(af, labels) => go!(&af, labels),
        }
    }

    fn script(&self, case: &crate::checks::config::ConfigCase, rec: &mut Rec) -> CheckResult {
        use crate::checks::config::{encs_of, queries_of, sem_of};
        use crate::queries::SolverObj;
        let encs = encs_of(case.kind);
        let enc = encs[case.enc_pick as usize % encs.len()];
        if case.kind == Kind::Gr || !enc_feasible(enc, &case.gc.g, &case.gc.pres) {
            return Ok(());
        }
        let g = G::new(case.gc.g.n, &case.gc.g.att_usize());
        let fams = Fams::new(&g);
        let comps = g.components();
        let comp_bounds: Vec<usize> = comps
            .iter()
            .map(|c| {
                let (sub, _) = g.induced(*c);
                bound_for(case.kind, enc, &Fams::new(&sub), sub.n)
            })
            .collect();
        let all: usize = comp_bounds.iter().sum::<usize>().max(if comps.len() > 1 { bound_for(case.kind, enc, &fams, g.n) } else { 0 });
        let sem = sem_of(case.kind);
        let qs = queries_of(case.kind, enc);
        let shared = Shared::new(usize::MAX);
        let run = |af_u: Option<&crustabri::aa::AAFramework<usize>>, af_s: Option<&crustabri::aa::AAFramework<String>>, lu: &[usize], ls: &[String], rec: &mut Rec| -> CheckResult {
            macro_rules! go {
                ($af:expr, $labels:expr) => {{
                    let mut s = SolverObj::new($af, case.kind, enc, satwrap::factory(&shared));
                    let mut history: Vec<String> = vec![];
                    for st in &case.script {
                        let q = qs[st.q as usize % qs.len()];
                        if q != Q::SE && g.n == 0 {
                            continue;
                        }
                        let a = idx(st.arg, g.n.max(1));
                        // the range-based and complete solvers answer a query without certificate inside the
                        // component of the argument; everything else may visit every component once
                        let own = comps.iter().position(|c| c & (1 << a) != 0).map(|i| comp_bounds[i]).unwrap_or(0);
                        let local = q != Q::SE && !st.cert && matches!(case.kind, Kind::Sst | Kind::Stg | Kind::Co);
                        let bound = if local { own } else { all };
                        for _ in 0..(if st.twice { 2 } else { 1 }) {
                            rec.eval();
                            let before = shared.n_calls();
                            shared.cap.set(before + bound);
                            history.push(format!("{}{}{}", q.name(), if q == Q::SE { String::new() } else { format!("({})", a) }, if st.cert { "+cert" } else { "" }));
                            let r = catch_unwind(AssertUnwindSafe(|| match q {
                                Q::SE => {
                                    s.se();
                                }
                                Q::DC => {
                                    s.dc(&[&$labels[a]], st.cert);
                                }
                                Q::DS => {
                                    s.ds(&[&$labels[a]], st.cert);
                                }
                            }));
                            if let Err(p) = r {
                                if p.downcast_ref::<CapExceeded>().is_some() {
                                    return Err(Failure::new(
                                        format!("C18/script/{:?}-solver/{}-{}/{}/more-sat-calls-than-the-bound", case.kind, q.name(), sem.name(), enc.name()),
                                        format!("query {:?} (last of {:?}) on one solver object made more than {} SAT calls ({})", history.last(), history, bound, if local { "bound of the argument's own component" } else { "sum over all components" }),
                                    ));
                                }
                                std::panic::resume_unwind(p);
                            }
                        }
                    }
                    Ok(())
                }};
            }
            match (af_u, af_s) {
                (Some(af), _) => go!(af, lu),
                (_, Some(af)) => go!(af, ls),
                _ => Ok(()),
            }
        };
        let r = match build(&case.gc) {
            Built::U(af, labels) => run(Some(&af), None, &labels, &[], rec),
            Built::S(af, labels) => run(None, Some(&af), &[], &labels, rec),
            Built::C(..) => Ok(()),
        };
        r?;
        rec.class("script-on-one-solver-object");
        if comps.len() >= 3 && rec.nontrivial(&serde_json::to_string(case).unwrap()) {
            rec.sample(|| json!({"script_on_one_solver_object": format!("{:?}", case.kind), "encoding": enc.name(), "steps": case.script.len(), "components": comps.len()}));
        }
        Ok(())
    }

    fn dynpr(&self, case: &DynCase, rec: &mut Rec) -> CheckResult {
        let factor = FACTORS[case.factor as usize % FACTORS.len()];
        let shared = Shared::new(usize::MAX);
        let mut s = dynamic::make(DynKind::Pr, factor, &shared);
        let mut m = Model::default();
        for (pos, op) in case.ops.iter().enumerate() {
            let is_query = matches!(op, OpT::Query { .. });
            if !matches!(op, OpT::NewArg(_) | OpT::RemArg(_) | OpT::NewAtt(..) | OpT::RemAtt(_) | OpT::Query { .. }) {
                continue;
            }
            let before = shared.n_calls();
            let bound = if is_query && !m.live.is_empty() {
                let live: Vec<usize> = m.live.iter().copied().collect();
                let posn = |l: usize| live.iter().position(|x| *x == l).unwrap();
                let att: Vec<(usize, usize)> = m.atts.iter().map(|(a, b)| (posn(*a), posn(*b))).collect();
                let g = G::new(live.len(), &att);
                let f = Fams::new(&g);
                f.co.len() + f.pr.len() + 1
            } else {
                0
            };
            if is_query {
                shared.cap.set(before + bound);
                rec.eval();
            } else {
                shared.cap.set(usize::MAX);
            }
            let r = catch_unwind(AssertUnwindSafe(|| dynamic::apply_valid(&mut s, &mut m, op, DynKind::Pr)));
            match r {
                Err(p) => {
                    if p.downcast_ref::<CapExceeded>().is_some() {
                        return Err(Failure::new(
                            "C18/dynamic-preferred/DS-PR/more-sat-calls-than-the-bound",
                            format!("step {} ({:?}): more than {} SAT calls (|CO|+|PR|+1 of the current framework)", pos, op, bound),
                        ));
                    }
                    let msg = p.downcast_ref::<String>().cloned().or_else(|| p.downcast_ref::<&str>().map(|s| s.to_string())).unwrap_or_default();
                    return Err(Failure::new("C18/dynamic-preferred/panic", msg));
                }
                Ok(Err(f)) => {
                    return Err(Failure::new(f.signature.replace("C17/lib-dynamic", "C18/dynamic-preferred"), f.message));
                }
                Ok(Ok(())) => {}
            }
            if is_query && bound > 0 {
                let used = shared.n_calls() - before;
                rec.class(&format!("dyn-calls-vs-bound-{:03}%", (used * 100 / bound / 20) * 20));
            }
        }
        if rec.nontrivial(&serde_json::to_string(case).unwrap()) {
            rec.sample_sized(case.ops.len(), || json!({"dynamic_preferred_history": case.ops.len(), "sat_calls": shared.n_calls()}));
        }
        Ok(())
    }
}

impl Prop for CallBound {
    type Case = BoundCase;
    fn id(&self) -> &'static str {
        "C18"
    }
    fn rule(&self) -> String {
        "Generated (framework <=9 quick / <=11 thorough, 70% connected shapes, problem among the 21, selectable encoder, argument, certificate flag) run through a counting and recording SAT factory whose cap is the property's bound: per connected component PR <= |base|+|PR|+1, ID <= 2|base|+|PR|+2, SST/STG <= (n+2)|base|+3, CO/ST <= 2, with base = the family the selected encoder characterises (complete; admissible for SE-PR with the admissibility encoder; conflict-free for STG), all counted by brute force; multi-component frameworks: the sum over components (or the bound of the framework as one piece, whichever is larger). The query is aborted at bound+1 calls, so a lost blocking clause shows as a violation instead of a hang. On connected frameworks the models returned on one solver instance, projected on the argument variables, must be pairwise distinct for PR and occur at most twice for ID, and a preferred search may make at most |base|-1 satisfiable calls (its starting candidate, the grounded extension, must not come back from the SAT solver). Dynamic preferred solver: every DS query of a generated history stays within |CO|+|PR|+1 calls for the current framework. Scripts of 3-12 queries on ONE solver object (generator of C06): every query has its own bound (its argument's component for SST/STG/CO queries without certificate, the sum over components otherwise), so work carried over from earlier queries shows. The answer of every run is also checked against the reference. Non-trivial: |base| >= 3 and >= 2 preferred extensions or maximal ranges; distinct = case.".into()
    }
    fn assumptions(&self) -> Vec<String> {
        vec![
            "liveness is reduced to a safety bound on oracle calls; each CaDiCaL call is assumed to terminate".into(),
            "oracle.rs counts of conflict-free / admissible / complete / preferred sets".into(),
        ]
    }
    fn strategy(&self, tier: Tier) -> BoxedStrategy<BoundCase> {
        let nmax = tier.pick(9, 11);
        let maxlen = tier.pick(60usize, 150usize);
        let stat = (
            prop_oneof![7 => gen::graph_single(nmax), 3 => gen::graph(nmax)],
            gen::pres(nmax),
            0usize..7,
            0u8..3,
            any::<u8>(),
            any::<u16>(),
            any::<bool>(),
        )
            .prop_filter("needs an argument for DC/DS", |(g, _, _, q, _, _, _)| *q == 0 || g.n >= 1)
            .prop_map(|(g, pres, s, q, enc_pick, arg, cert)| {
                let q = [Q::SE, Q::DC, Q::DS][q as usize];
                let mut sem = ALL_SEMS[s];
                if kind_for(q, sem) == Kind::Gr && enc_pick % 8 != 0 {
                    sem = [Sem::PR, Sem::ST, Sem::SST, Sem::STG, Sem::ID][(enc_pick as usize / 8) % 5];
                }
                BoundCase::Static(ProblemCase { gc: GraphCase { g, pres }, sem, q, enc_pick, arg, cert })
            });
        let medium = (crate::checks::statics::medium_strategy(), 0usize..7, 0u8..3, any::<u8>(), any::<u16>(), any::<bool>()).prop_map(|(gc, s, q, enc_pick, arg, cert)| {
            let q = [Q::SE, Q::DC, Q::DS][q as usize];
            let mut sem = ALL_SEMS[s];
            if kind_for(q, sem) == Kind::Gr {
                sem = [Sem::PR, Sem::ST, Sem::SST, Sem::ID][(enc_pick as usize / 8) % 4];
            }
            BoundCase::Static(ProblemCase { gc, sem, q, enc_pick, arg, cert })
        });
        let dynpr = (0u8..FACTORS.len() as u8, vec(dynamic::op_strategy(false), 5..=maxlen))
            .prop_map(|(factor, ops)| BoundCase::DynamicPr(DynCase { kind: DynKind::Pr, factor, ops, groups: 1 }));
        let script = crate::checks::config::Config.small_strategy(tier).prop_map(BoundCase::Script);
        let list = (prop_oneof![3 => gen::graph_multi(9), 1 => gen::graph(9)], gen::pres(9), 0u8..3, vec(any::<u16>(), 1..=3))
            .prop_filter("needs an argument", |(g, _, _, _)| g.n >= 1)
            .prop_map(|(g, pres, mode, picks)| BoundCase::List(crate::checks::multi::MultiCase { gc: GraphCase { g, pres }, mode, picks, choice: (0, 0) }));
        prop_oneof![70 => stat, 15 => dynpr, 15 => script, 2 => medium, 10 => list].boxed()
    }
    fn n_cases(&self, tier: Tier) -> u32 {
        tier.pick(300_000, 5_000_000)
    }
    fn run(&self, case: &BoundCase, rec: &mut Rec) -> CheckResult {
        // the bounds are stated in candidate sets, so they hold whichever models the backend returns
        let (_scope, chosen) = satwrap::ChoiceScope::for_case(case);
        if chosen {
            rec.class("sat-backend-returns-chosen-models");
        }
        match case {
            BoundCase::Static(pc) => self.stat(pc, rec),
            BoundCase::DynamicPr(dc) => self.dynpr(dc, rec),
            BoundCase::Script(sc) => self.script(sc, rec),
            BoundCase::List(mc) => self.list(mc, rec),
        }
    }
}
