pub mod statics;
