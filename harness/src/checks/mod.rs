pub mod statics;
pub mod multi;
pub mod dynamic;
