pub mod statics;
pub mod multi;
