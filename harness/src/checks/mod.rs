pub mod statics;
pub mod multi;
pub mod dynamic;
pub mod satobj;
pub mod exchange;
pub mod faults;
