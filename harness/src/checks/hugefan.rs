//! In-degrees of 2^16 and beyond: a small core framework in which one argument gets K fresh unattacked
//! attackers (or one attack line repeated K times), a prefix of them defeated by one more argument.
//! Only linear-time code is exercised on it (grounded reasoning, the equivalence reduction): several SAT
//! encoders are quadratic in the multiplicity by design. The reference is exact: the fan arguments are
//! decided by the grounded extension, so the complete extensions are those of the core with the target
//! removed (if an attacker survives) or of the core itself (if all are defeated).

use crate::engine::{CheckResult, Failure, Rec};
use crate::gen::{idx, AbsGraph};
use crate::oracle::{Fams, G};
use crate::util::guard;
use crustabri::aa::AAFramework;
use crustabri::io::{Iccma23Reader, InstanceReader};
use crustabri::solvers::*;
use crustabri::utils::EquivalencyComputer;
use proptest::prelude::*;
use serde::{Deserialize, Serialize};
use serde_json::json;

#[derive(Clone, Debug, PartialEq, Eq, Hash, Serialize, Deserialize)]
pub struct HugeFan {
    pub core: AbsGraph,
    pub target: u16,
    /// number of attackers (distinct arguments) or of repeats of one line
    pub k: u32,
    /// how many of the attackers are defeated by the extra unattacked argument (distinct mode)
    pub defeated: u32,
    /// one attacker whose attack line is repeated k times instead of k distinct attackers
    pub repeated_line: bool,
    /// is the single attacker of the repeated-line mode itself defeated?
    pub attacker_defeated: bool,
    /// isolated self-attacking arguments (in no extension, in nobody's way) whose labels sit between the
    /// core arguments `..split` and `split..`: the core's ids are 2^16 or 2^17 apart
    #[serde(default)]
    pub fillers: u32,
    #[serde(default)]
    pub split: u8,
}

pub fn strategy() -> BoxedStrategy<HugeFan> {
    (
        crate::gen::graph(6),
        any::<u16>(),
        prop_oneof![4 => 65_530u32..65_545, 2 => 131_068u32..131_076, 2 => 250u32..262, 2 => 1u32..20, 1 => 1_048_570u32..1_048_582],
        any::<u32>(),
        any::<bool>(),
        any::<bool>(),
    )
        .prop_filter("needs a core argument", |(g, ..)| g.n >= 1)
        .prop_map(|(core, target, k, d, repeated_line, attacker_defeated)| {
            // a third of the small fans carry 2^16 or 2^17 (and a few) self-attacking fillers in the middle of the
            // core's labels instead: ids, counters and stamps that wrap after 65536 steps
            let (fillers, split) = if k < 300 && d % 3 == 0 {
                ([65_530u32, 65_533, 65_534, 65_535, 65_536, 65_537, 131_069, 131_071, 131_072][(d / 3) as usize % 9] + (d / 27) % 3, (d / 81) as u8)
            } else {
                (0, 0)
            };
            let defeated = match d % 5 {
                0 => k,
                1 => k - 1,
                2 => 0,
                3 => 1.min(k),
                _ => d % (k + 1),
            };
            // half of the filler cases replace the core by a "twin" core: a pattern over m <= 5 residues lifted to
            // two floors whose labels are exactly 2^16 (or 2^17) apart, every pattern attack being copied on both
            // floors, crossed between them, or kept on one side only - the analogue, at distance 2^16, of the
            // residue-lifted frameworks of C10: whatever is indexed by id modulo 2^16 (stamps, short counters,
            // truncated keys) is shared by the two twins of an argument
            let mut core = core;
            let (mut fillers, mut split) = (fillers, split);
            if fillers > 0 && d % 2 == 1 {
                let m = 2 + (d as usize / 7) % 4;
                let mut att: Vec<(u8, u8)> = vec![];
                let mut w = (d as u64).wrapping_mul(0x9E37_79B9_7F4A_7C15) ^ (target as u64) << 17 ^ (k as u64) << 40;
                let edges = m + 2 + (d as usize / 11) % (2 * m);
                for _ in 0..edges {
                    w ^= w << 13;
                    w ^= w >> 7;
                    w ^= w << 17;
                    let (ra, rb, kind) = ((w % m as u64) as u8, ((w >> 8) % m as u64) as u8, (w >> 16) % 7);
                    let m8 = m as u8;
                    match kind {
                        0 | 1 => {
                            att.push((ra, rb));
                            att.push((m8 + ra, m8 + rb));
                        }
                        2 => {
                            att.push((ra, m8 + rb));
                            att.push((m8 + ra, rb));
                        }
                        3 => att.push((ra, rb)),
                        4 => att.push((m8 + ra, m8 + rb)),
                        5 => att.push((ra, m8 + rb)),
                        _ => att.push((m8 + ra, rb)),
                    }
                }
                core = AbsGraph { n: 2 * m, att };
                split = m as u8;
                let span = if fillers > 100_000 { 131_072 } else { 65_536 };
                fillers = span - m as u32;
            }
            HugeFan { core, target, k, defeated, repeated_line, attacker_defeated, fillers, split }
        })
        .boxed()
}

/// Cases of a million arguments take gigabytes: one at a time, whatever the number of worker threads.
static HUGE_ONE_AT_A_TIME: std::sync::Mutex<()> = std::sync::Mutex::new(());

fn serialise_if_huge(c: &HugeFan) -> Option<std::sync::MutexGuard<'static, ()>> {
    if c.k > 500_000 {
        Some(HUGE_ONE_AT_A_TIME.lock().unwrap_or_else(|p| p.into_inner()))
    } else {
        None
    }
}

struct Layout {
    n: usize,
    core_n: usize,
    target: usize,
    /// attack list over nodes 0..n (without repeats)
    att: Vec<(usize, usize)>,
    /// does some attacker of the fan survive (so that the target is defeated by the grounded extension)?
    target_defeated_by_fan: bool,
    /// first filler node (fillers are the last nodes); == n without fillers
    first_filler: usize,
    /// label - 1 of every node, and its inverse: the fillers' labels come after the first `split` core labels
    label_of: Vec<usize>,
    node_of: Vec<usize>,
}

fn layout(c: &HugeFan) -> Layout {
    let core_n = c.core.n;
    let target = idx(c.target, core_n);
    let mut att: Vec<(usize, usize)> = c.core.att.iter().map(|(a, b)| (*a as usize, *b as usize)).collect();
    att.sort();
    att.dedup();
    let mut n = core_n;
    let survives;
    if c.repeated_line {
        let f = n;
        n += 1;
        att.push((f, target));
        if c.attacker_defeated {
            let killer = n;
            n += 1;
            att.push((killer, f));
        }
        survives = !c.attacker_defeated;
    } else {
        let first = n;
        n += c.k as usize;
        for j in 0..c.k as usize {
            att.push((first + j, target));
        }
        if c.defeated > 0 {
            let killer = n;
            n += 1;
            for j in 0..c.defeated as usize {
                att.push((killer, first + j));
            }
        }
        survives = c.defeated < c.k;
    }
    let first_filler = n;
    let fillers = c.fillers as usize;
    for f in 0..fillers {
        att.push((first_filler + f, first_filler + f));
    }
    n += fillers;
    let split = (c.split as usize) % (core_n + 1);
    let mut label_of = vec![0usize; n];
    for node in 0..n {
        label_of[node] = if node < split {
            node
        } else if node < first_filler {
            node + fillers
        } else {
            split + (node - first_filler)
        };
    }
    let mut node_of = vec![0usize; n];
    for (node, l) in label_of.iter().enumerate() {
        node_of[*l] = node;
    }
    Layout { n, core_n, target, att, target_defeated_by_fan: survives, first_filler, label_of, node_of }
}

pub fn text(c: &HugeFan) -> String {
    let lay = layout(c);
    let mut s = String::with_capacity(16 * lay.att.len() + 16 * c.k as usize);
    s.push_str(&format!("p af {}\n", lay.n));
    for (a, b) in &lay.att {
        s.push_str(&format!("{} {}\n", lay.label_of[*a] + 1, lay.label_of[*b] + 1));
    }
    if c.repeated_line {
        let l = format!("{} {}\n", lay.label_of[lay.core_n] + 1, lay.label_of[lay.target] + 1);
        for _ in 1..c.k {
            s.push_str(&l);
        }
    }
    s
}

/// Grounded extension by the textbook fixpoint on adjacency lists (linear in the size of the framework).
fn grounded(n: usize, att: &[(usize, usize)]) -> Vec<bool> {
    let mut out: Vec<Vec<usize>> = vec![vec![]; n];
    let mut indeg = vec![0usize; n];
    for (a, b) in att {
        out[*a].push(*b);
        indeg[*b] += 1;
    }
    let mut inn = vec![false; n];
    let mut outt = vec![false; n];
    let mut queue: Vec<usize> = (0..n).filter(|i| indeg[*i] == 0).collect();
    for q in &queue {
        inn[*q] = true;
    }
    while let Some(a) = queue.pop() {
        for &b in &out[a] {
            if !outt[b] {
                outt[b] = true;
                for &c in &out[b] {
                    indeg[c] -= 1;
                    if indeg[c] == 0 && !inn[c] && !outt[c] {
                        inn[c] = true;
                        queue.push(c);
                    }
                }
            }
        }
    }
    inn
}

fn read(c: &HugeFan, pid: &str) -> Result<AAFramework<usize>, Failure> {
    let t = text(c);
    Iccma23Reader::default()
        .read(&mut t.as_bytes())
        .map_err(|e| Failure::new(format!("{}/huge-fan/reader-rejected-generated-file", pid), e.to_string()))
}

fn describe(c: &HugeFan) -> String {
    format!(
        "core {:?}, target node {}, {} {}, defeated {}, {fillers} self-attacking fillers after the first {split} core labels",
        c.core,
        idx(c.target, c.core.n),
        c.k,
        if c.repeated_line { "repeats of one attack line" } else { "distinct attackers" },
        if c.repeated_line { c.attacker_defeated as u32 } else { c.defeated },
        fillers = c.fillers,
        split = c.split
    )
}

fn set_of(v: &[&crustabri::aa::Argument<usize>], node_of: &[usize], pid: &str, what: &str) -> Result<Vec<bool>, Failure> {
    let n = node_of.len();
    let mut s = vec![false; n];
    for a in v {
        let l = *a.label() - 1;
        let i = if l < n { node_of[l] } else { n };
        if i >= n || s[i] {
            return Err(Failure::new(format!("{}/huge-fan/{}/foreign-or-duplicate-member", pid, what), format!("label {}", a.label())));
        }
        s[i] = true;
    }
    Ok(s)
}

/// C01 (single extensions), C02 (credulous), C03 (skeptical) for the grounded-based problems.
pub fn run_grounded(pid: &str, c: &HugeFan, rec: &mut Rec) -> CheckResult {
    let _one = serialise_if_huge(c);
    let lay = layout(c);
    let af = read(c, pid)?;
    let gr = grounded(lay.n, &lay.att);
    rec.class(&format!("huge-fan-{}", if c.k >= 1_000_000 { "in-degree-above-2^20" } else if c.k >= 60_000 { "in-degree-above-2^16" } else { "small" }));
    let nodes: Vec<usize> = {
        let mut v: Vec<usize> = (0..lay.core_n).collect();
        v.extend([lay.core_n.min(lay.n - 1), lay.n - 1, lay.n / 2, lay.first_filler.min(lay.n - 1)]);
        v.sort();
        v.dedup();
        v
    };
    match pid {
        "C01" => {
            rec.evals(3);
            let own = guard(|| set_of(&af.grounded_extension(), &lay.node_of, pid, "AAFramework::grounded_extension")).map_err(|p| Failure::new("C01/huge-fan/panic", p))??;
            if own != gr {
                return Err(Failure::new("C01/huge-fan/AAFramework::grounded_extension/wrong-set", describe(c)));
            }
            let se = guard(|| GroundedSemanticsSolver::new(&af).compute_one_extension().map(|e| set_of(&e, &lay.node_of, pid, "SE-GR")))
                .map_err(|p| Failure::new("C01/huge-fan/panic", p))?;
            match se {
                Some(Ok(s)) if s == gr => {}
                Some(Err(f)) => return Err(f),
                _ => return Err(Failure::new("C01/huge-fan/SE-GR/not-the-grounded-extension", describe(c))),
            }
        }
        "C02" => {
            for a in nodes {
                rec.eval();
                let lab = lay.label_of[a] + 1;
                let got = guard(|| GroundedSemanticsSolver::new(&af).is_credulously_accepted(&lab)).map_err(|p| Failure::new("C02/huge-fan/panic", p))?;
                if got != gr[a] {
                    return Err(Failure::new(format!("C02/huge-fan/DC-GR/got-{}-expected-{}", got, gr[a]), format!("argument {}; {}", lab, describe(c))));
                }
            }
        }
        _ => {
            for a in nodes {
                rec.evals(2);
                let lab = lay.label_of[a] + 1;
                let got = guard(|| GroundedSemanticsSolver::new(&af).is_skeptically_accepted(&lab)).map_err(|p| Failure::new("C03/huge-fan/panic", p))?;
                let (got_c, cert) = guard(|| {
                    let mut s = GroundedSemanticsSolver::new(&af);
                    let (b, c) = s.is_skeptically_accepted_with_certificate(&lab);
                    (b, c.map(|e| e.len()))
                })
                .map_err(|p| Failure::new("C03/huge-fan/panic", p))?;
                if got != gr[a] || got_c != gr[a] {
                    return Err(Failure::new(
                        format!("C03/huge-fan/DS-GR/got-{}-expected-{}", got, gr[a]),
                        format!("argument {} (with certificate: {}, {:?} members); {}", lab, got_c, cert, describe(c)),
                    ));
                }
            }
        }
    }
    if rec.nontrivial(c) {
        rec.sample(|| json!({"huge_fan": describe(c), "arguments": lay.n}));
    }
    Ok(())
}

/// C19 on the same frameworks, exactly.
pub fn run_equiv(c: &HugeFan, rec: &mut Rec) -> CheckResult {
    let _one = serialise_if_huge(c);
    let lay = layout(c);
    let af = read(c, "C19")?;
    rec.eval();
    rec.class(&format!("huge-fan-{}", if c.k >= 1_000_000 { "in-degree-above-2^20" } else if c.k >= 60_000 { "in-degree-above-2^16" } else { "small" }));
    // reference signatures: the complete extensions restricted to the core are those of the core, or of the
    // core without the target when an attacker of the fan survives (it is then defeated by the grounded extension)
    let keep: Vec<usize> = (0..lay.core_n).filter(|i| !(lay.target_defeated_by_fan && *i == lay.target)).collect();
    let pos: std::collections::HashMap<usize, usize> = keep.iter().enumerate().map(|(k, i)| (*i, k)).collect();
    let sub_att: Vec<(usize, usize)> = c.core.att.iter().filter_map(|(a, b)| Some((*pos.get(&(*a as usize))?, *pos.get(&(*b as usize))?))).collect();
    let co = Fams::new(&G::new(keep.len(), &sub_att)).co;
    let gr = grounded(lay.n, &lay.att);
    #[derive(PartialEq, Clone, Debug)]
    enum Sig {
        InAll,
        InNone,
        Mixed(Vec<bool>),
    }
    let sig = |node: usize| -> Sig {
        if node >= lay.core_n {
            // fan attackers, the killer: decided by the grounded extension
            return if gr[node] { Sig::InAll } else { Sig::InNone };
        }
        match pos.get(&node) {
            None => Sig::InNone, // the target, defeated
            Some(p) => {
                let v: Vec<bool> = co.iter().map(|e| e & (1 << p) != 0).collect();
                if v.iter().all(|b| *b) {
                    Sig::InAll
                } else if v.iter().all(|b| !*b) {
                    Sig::InNone
                } else {
                    Sig::Mixed(v)
                }
            }
        }
    };
    let r = guard(|| {
        let ec = EquivalencyComputer::new(&af);
        let red = ec.reduced_af();
        let classes: Vec<Vec<usize>> = red.argument_set().iter().map(|ra| ec.reduced_arg_to_init_args(ra).iter().map(|a| lay.node_of[*a.label() - 1]).collect()).collect();
        // the inverse mapping of every argument, or, above 200 000 arguments, of the core, the first and
        // last fan arguments and every 4099th one (a class may have a million members)
        let n_all = af.n_arguments();
        let back: Vec<(usize, Vec<usize>)> = af
            .argument_set()
            .iter()
            .filter(|a| n_all <= 200_000 || *a.label() <= 16 || *a.label() + 8 >= n_all || *a.label() % 4099 == 0)
            .map(|a| (lay.node_of[*a.label() - 1], ec.reduced_arg_to_init_args(ec.init_to_reduced_arg(a)).iter().map(|x| lay.node_of[*x.label() - 1]).collect()))
            .collect();
        (classes, back)
    });
    let (classes, back) = r.map_err(|p| Failure::new("C19/huge-fan/panic", format!("{}; {}", p, describe(c))))?;
    let mut class_of = vec![usize::MAX; lay.n];
    for (k, cl) in classes.iter().enumerate() {
        if cl.is_empty() {
            return Err(Failure::new("C19/huge-fan/empty-class", describe(c)));
        }
        let s0 = sig(cl[0]);
        for x in cl {
            if *x >= lay.n || class_of[*x] != usize::MAX {
                return Err(Failure::new("C19/huge-fan/classes-overlap-or-foreign", describe(c)));
            }
            class_of[*x] = k;
            if sig(*x) != s0 {
                return Err(Failure::new(
                    "C19/huge-fan/merged-arguments-distinguished-by-a-complete-extension",
                    format!("nodes {} ({:?}) and {} ({:?}) share a class; {}", cl[0], s0, x, sig(*x), describe(c)),
                ));
            }
        }
    }
    if class_of.iter().any(|k| *k == usize::MAX) {
        return Err(Failure::new("C19/huge-fan/classes-do-not-cover-all-arguments", describe(c)));
    }
    for (x, cls) in &back {
        let mut a = cls.clone();
        let mut b = classes[class_of[*x]].clone();
        a.sort();
        b.sort();
        if a != b {
            return Err(Failure::new("C19/huge-fan/mappings-not-inverse", format!("node {}; {}", x, describe(c))));
        }
    }
    let g_nodes: Vec<usize> = (0..lay.n).filter(|i| gr[*i]).collect();
    if let Some(g0) = g_nodes.first() {
        if g_nodes.iter().any(|g| class_of[*g] != class_of[*g0]) {
            return Err(Failure::new("C19/huge-fan/grounded-extension-split-over-classes", describe(c)));
        }
    }
    let mut defeated = vec![false; lay.n];
    for (a, b) in &lay.att {
        if gr[*a] {
            defeated[*b] = true;
        }
    }
    let d_nodes: Vec<usize> = (0..lay.n).filter(|i| defeated[*i]).collect();
    if let Some(d0) = d_nodes.first() {
        if d_nodes.iter().any(|d| class_of[*d] != class_of[*d0]) {
            return Err(Failure::new("C19/huge-fan/defeated-arguments-split-over-classes", describe(c)));
        }
    }
    if rec.nontrivial(c) {
        rec.sample(|| json!({"huge_fan": describe(c), "arguments": lay.n, "classes": classes.len()}));
    }
    Ok(())
}

/// One unattacked argument attacking every other one: a single connected component of `n` arguments with an
/// out-degree of n - 1, put to the SAT-based solvers (the sub-framework extraction and the encoders see more
/// than 2^20 arguments; the SAT problem itself is trivial). Extensions: {hub} under every semantics.
pub fn run_out_hub(pid: &str, n: u32, decreasing: bool, rec: &mut Rec) -> CheckResult {
    let _one = HUGE_ONE_AT_A_TIME.lock().unwrap_or_else(|p| p.into_inner());
    let n = n as usize;
    let mut t = String::with_capacity(12 * n);
    t.push_str(&format!("p af {}\n", n));
    if decreasing {
        for j in (2..=n).rev() {
            t.push_str(&format!("1 {}\n", j));
        }
    } else {
        for j in 2..=n {
            t.push_str(&format!("1 {}\n", j));
        }
    }
    // a few attacks from higher to lower ids among the (defeated) small arguments: both directions occur in
    // one framework of more than 2^16 / 2^20 ids; the extensions stay {hub}
    for (a, b) in [(6usize, 2usize), (7, 3), (8, 4), (70_000, 5)] {
        if a <= n && b <= n {
            t.push_str(&format!("{} {}\n", a, b));
        }
    }
    let af: AAFramework<usize> = Iccma23Reader::default()
        .read(&mut t.as_bytes())
        .map_err(|e| Failure::new(format!("{}/out-hub/reader-rejected-generated-file", pid), e.to_string()))?;
    drop(t);
    rec.class("out-degree-hub-above-2^20-through-the-sat-based-solvers");
    let ctx = format!("argument 1 attacks the arguments 2..={} ({} order)", n, if decreasing { "decreasing" } else { "increasing" });
    let leaves = [2usize, n / 2, n - 1, n];
    match pid {
        "C01" => {
            rec.evals(3);
            let r = guard(|| {
                let a = SemiStableSemanticsSolver::new(&af).compute_one_extension().map(|e| e.iter().map(|x| *x.label()).collect::<Vec<usize>>());
                let b = StableSemanticsSolver::new(&af).compute_one_extension().map(|e| e.iter().map(|x| *x.label()).collect::<Vec<usize>>());
                let c = PreferredSemanticsSolver::new(&af).compute_one_extension().map(|e| e.iter().map(|x| *x.label()).collect::<Vec<usize>>());
                let d = StageSemanticsSolver::new(&af).compute_one_extension().map(|e| e.iter().map(|x| *x.label()).collect::<Vec<usize>>());
                (a, b, c, d)
            })
            .map_err(|p| Failure::new("C01/out-hub/panic", format!("{}; {}", p, ctx)))?;
            for (name, e) in [("SE-SST", r.0), ("SE-ST", r.1), ("SE-PR", r.2), ("SE-STG", r.3)] {
                if e != Some(vec![1]) {
                    return Err(Failure::new(format!("C01/out-hub/{}/not-the-extension", name), format!("returned {:?} members, expected [1]; {}", e.map(|v| v.len()), ctx)));
                }
            }
        }
        _ => {
            let cred = pid == "C02";
            for (i, a) in std::iter::once(1usize).chain([6usize, 70_000, n]).enumerate() {
                let expected = i == 0;
                rec.evals(4);
                let got = guard(|| {
                    if cred {
                        (
                            CompleteSemanticsSolver::new(&af).is_credulously_accepted(&a),
                            StableSemanticsSolver::new(&af).is_credulously_accepted(&a),
                            SemiStableSemanticsSolver::new(&af).is_credulously_accepted(&a),
                            StageSemanticsSolver::new(&af).is_credulously_accepted(&a),
                        )
                    } else {
                        (
                            PreferredSemanticsSolver::new(&af).is_skeptically_accepted(&a),
                            StableSemanticsSolver::new(&af).is_skeptically_accepted(&a),
                            SemiStableSemanticsSolver::new(&af).is_skeptically_accepted(&a),
                            StageSemanticsSolver::new(&af).is_skeptically_accepted(&a),
                        )
                    }
                })
                .map_err(|p| Failure::new(format!("{}/out-hub/panic", pid), format!("{}; {}", p, ctx)))?;
                let names = if cred { ["DC-CO", "DC-ST", "DC-SST", "DC-STG"] } else { ["DS-PR", "DS-ST", "DS-SST", "DS-STG"] };
                for (name, g) in names.iter().zip([got.0, got.1, got.2, got.3]) {
                    if g != expected {
                        return Err(Failure::new(format!("{}/out-hub/{}/got-{}-expected-{}", pid, name, g, expected), format!("argument {}; {}", a, ctx)));
                    }
                }
            }
        }
    }
    if rec.nontrivial(&("out-hub", n, decreasing)) {
        rec.sample(|| json!({"out_degree_hub": {"arguments": n, "attack_lines": if decreasing {"decreasing"} else {"increasing"}}}));
    }
    Ok(())
}
