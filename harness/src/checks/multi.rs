//! C07: multi-argument queries are disjunctions; both entry points agree.

use crate::build::{build, Built};
use crate::checks::statics::enc_feasible;
use crate::engine::{CheckResult, Failure, Prop, Rec, Tier};
use crate::gen::{self, idx, GraphCase, Pres};
use crate::oracle::{self, Fams, Sem, ALL_SEMS, G};
use crate::queries::{encodings_for, kind_for, LabelMap, SolverObj, Q};
use crate::satwrap::{self, Shared};
use crate::util::{guard, mask_to_vec, masks_to_vecs};
use crustabri::aa::AAFramework;
use crustabri::utils::LabelType;
use proptest::collection::vec;
use proptest::prelude::*;
use serde::{Deserialize, Serialize};
use serde_json::json;

#[derive(Clone, Debug, Serialize, Deserialize)]
pub struct MultiCase {
    pub gc: GraphCase,
    /// 0: free picks; 1: endpoints of an attack first; 2: one argument per component first;
    /// 3: picks by semantic role (in every preferred extension but not ideal / ideal but not grounded /
    /// grounded / in some but not all preferred extensions / in none / in every stable extension)
    pub mode: u8,
    pub picks: Vec<u16>,
    /// seed and bias of the model-choosing SAT backend (see satwrap::Chooser)
    #[serde(default)]
    pub choice: (u64, u8),
}

/// A small framework with a list, or a list over a composite framework of 20-200 arguments.
#[derive(Clone, Debug, Serialize, Deserialize)]
pub enum MultiAny {
    Small(MultiCase),
    Composite(crate::checks::composite::CompositeCase),
}

pub struct Multi;

/// Graphs built around the textbook gadget in which an argument belongs to every preferred extension without
/// being ideal (a <-> b, both attack c, c attacks d), next to an unattacked argument that starts a chain, all
/// of it perturbed by a few generated attacks: lists over such graphs mix the roles "in all preferred",
/// "ideal", "grounded" and "in some preferred" far more often than random graphs do.
fn skeptical_not_ideal(nmax: usize) -> BoxedStrategy<gen::AbsGraph> {
    (6usize..=nmax.max(6), vec((any::<u16>(), any::<u16>()), 0..=4), any::<bool>())
        .prop_map(|(n, extra, link)| {
            // 0 <-> 1, 0 -> 2, 1 -> 2, 2 -> 3 ; 4 unattacked, 4 -> 5
            let mut att: Vec<(u8, u8)> = vec![(0, 1), (1, 0), (0, 2), (1, 2), (2, 3), (4, 5)];
            if link {
                // one connected component: the chain end attacks the gadget's sink
                att.push((5, 3));
            }
            for (a, b) in extra {
                att.push((idx(a, n) as u8, idx(b, n) as u8));
            }
            gen::AbsGraph { n, att }
        })
        .boxed()
}

pub fn resolve_picks(g: &G, att: &[(u8, u8)], mode: u8, picks: &[u16]) -> Vec<usize> {
    let n = g.n;
    let mut out = vec![];
    match mode {
        1 if !att.is_empty() => {
            let (a, b) = att[idx(picks[0], att.len())];
            out.push(a as usize);
            if picks.len() >= 2 {
                out.push(b as usize);
            }
            for p in picks.iter().skip(2) {
                out.push(idx(*p, n));
            }
        }
        2 => {
            let comps = g.components();
            for (k, p) in picks.iter().enumerate() {
                let c = comps[k % comps.len()];
                let members = mask_to_vec(c);
                out.push(members[idx(*p, members.len())]);
            }
        }
        _ => {
            for p in picks {
                out.push(idx(*p, n));
            }
        }
    }
    out
}

impl Multi {
    fn run_generic<T: LabelType>(
        &self,
        af: &AAFramework<T>,
        labels: &[T],
        case: &MultiCase,
        g: &G,
        fams: &Fams,
        list: &[usize],
        rec: &mut Rec,
    ) -> CheckResult {
        let lm = LabelMap::new(af, labels);
        let qm: u32 = list.iter().fold(0, |m, a| m | (1 << a));
        let refs: Vec<&T> = list.iter().map(|a| &labels[*a]).collect();
        let comps = g.components();
        let spans = comps.iter().filter(|c| *c & qm != 0).count();
        let distinct = qm.count_ones();
        for q in [Q::DC, Q::DS] {
            for sem in ALL_SEMS {
                let exts = fams.exts(sem);
                let expected = if q == Q::DC { oracle::dc(&exts, qm) } else { oracle::ds(&exts, qm) };
                let differs_from_member = list.iter().any(|a| {
                    let b = 1u32 << a;
                    (if q == Q::DC { oracle::dc(&exts, b) } else { oracle::ds(&exts, b) }) != expected
                });
                let witness_family = if q == Q::DC && sem == Sem::PR { fams.co.clone() } else { exts.clone() };
                for enc in encodings_for(q, sem) {
                    if !enc_feasible(enc, &case.gc.g, &case.gc.pres) {
                        continue;
                    }
                    let kind = kind_for(q, sem);
                    let shape = if distinct <= 1 {
                        "single-arg"
                    } else if spans >= 2 {
                        "list-spans-components"
                    } else {
                        "list-in-one-component"
                    };
                    let sig = format!("C07/{:?}-solver/{}-{}/{}/{}", kind, q.name(), sem.name(), enc.name(), shape);
                    rec.evals(2);
                    // both entry points on one solver object, plain first or certificate first
                    let r = guard(|| {
                        let shared = Shared::new(satwrap::DEFAULT_CAP);
                        let mut s = SolverObj::new(af, kind, enc, satwrap::factory(&shared));
                        let with = if q == Q::DC { s.dc(&refs, true) } else { s.ds(&refs, true) };
                        let shared2 = Shared::new(satwrap::DEFAULT_CAP);
                        let mut s2 = SolverObj::new(af, kind, enc, satwrap::factory(&shared2));
                        let plain = if q == Q::DC { s2.dc(&refs, false).0 } else { s2.ds(&refs, false).0 };
                        (with, plain)
                    });
                    let ((st_with, cert), st_plain) = match r {
                        Err(p) => return Err(Failure::new(format!("{}/panic", sig), p)),
                        Ok(x) => x,
                    };
                    // the same two questions with a SAT backend that returns other models than a
                    // default-phase CDCL solver would (the answers may not depend on that choice)
                    // the procedures that climb from one SAT answer to the next (preferred, semi-stable, stage,
                    // ideal) get three more choices of models per real list
                    let rounds: u64 = if distinct >= 2 && matches!(sem, Sem::PR | Sem::SST | Sem::STG | Sem::ID) { 4 } else { 1 };
                    for round in 0..rounds {
                        if !(distinct >= 2 || case.choice.0 % 4 == 0) {
                            break;
                        }
                        rec.evals(2);
                        let r = guard(|| {
                            let be = satwrap::choosy(case.choice.0.wrapping_add(round.wrapping_mul(0x9E37_79B9)), ((case.choice.1 as u64 + round) % 3) as u8, 64);
                            let shared = Shared::new(satwrap::DEFAULT_CAP);
                            let mut s = SolverObj::new(af, kind, enc, satwrap::factory_with(&shared, &be));
                            let with = if q == Q::DC { s.dc(&refs, true) } else { s.ds(&refs, true) };
                            let shared2 = Shared::new(satwrap::DEFAULT_CAP);
                            let mut s2 = SolverObj::new(af, kind, enc, satwrap::factory_with(&shared2, &be));
                            let plain = if q == Q::DC { s2.dc(&refs, false).0 } else { s2.ds(&refs, false).0 };
                            (with, plain)
                        });
                        let ((cw, ccert), cp) = match r {
                            Err(p) => return Err(Failure::new(format!("{}/chosen-models/panic", sig), p)),
                            Ok(x) => x,
                        };
                        if cp != expected {
                            return Err(Failure::new(
                                format!("{}/chosen-models/plain/got-{}-expected-{}", sig, cp, expected),
                                format!("list {:?}; reference extensions {:?}", list, masks_to_vecs(&exts)),
                            ));
                        }
                        if cw != expected {
                            return Err(Failure::new(
                                format!("{}/chosen-models/with-certificate/got-{}-expected-{}", sig, cw, expected),
                                format!("list {:?}; reference extensions {:?}", list, masks_to_vecs(&exts)),
                            ));
                        }
                        if let Some(c) = ccert {
                            let m = lm.mask(&c).map_err(|m| Failure::new(format!("{}/chosen-models/foreign-or-duplicate-member", sig), m))?;
                            if !witness_family.contains(&m) || (q == Q::DC) != (m & qm != 0) {
                                return Err(Failure::new(
                                    format!("{}/chosen-models/bad-certificate", sig),
                                    format!("list {:?} certificate {:?} reference {:?}", list, mask_to_vec(m), masks_to_vecs(&witness_family)),
                                ));
                            }
                        }
                    }
                    let nt = distinct >= 2 && (differs_from_member || spans >= 2);
                    if nt {
                        let new = rec.nontrivial(&(case.gc.g.canonical(), case.gc.pres.kind(), q, sem, enc, list.to_vec()));
                        if new {
                            rec.sample_sized(case.gc.g.att.len(), || {
                                json!({"graph": case.gc, "list": list, "problem": format!("{}-{}", q.name(), sem.name()),
                                       "encoding": enc.name(), "expected": expected, "components_spanned": spans})
                            });
                        }
                    }
                    if st_plain != expected {
                        return Err(Failure::new(
                            format!("{}/plain/got-{}-expected-{}", sig, st_plain, expected),
                            format!("list {:?}; reference extensions {:?}", list, masks_to_vecs(&exts)),
                        ));
                    }
                    if st_with != expected {
                        return Err(Failure::new(
                            format!("{}/with-certificate/got-{}-expected-{}", sig, st_with, expected),
                            format!("list {:?}; reference extensions {:?}", list, masks_to_vecs(&exts)),
                        ));
                    }
                    let promised = if q == Q::DC { st_with } else { !st_with };
                    match (promised, cert) {
                        (false, None) => {}
                        (false, Some(_)) => return Err(Failure::new(format!("{}/unexpected-certificate", sig), format!("list {:?}", list))),
                        (true, None) => return Err(Failure::new(format!("{}/missing-certificate", sig), format!("list {:?}", list))),
                        (true, Some(c)) => {
                            let m = lm.mask(&c).map_err(|m| Failure::new(format!("{}/foreign-or-duplicate-member", sig), m))?;
                            if !witness_family.contains(&m) {
                                return Err(Failure::new(
                                    format!("{}/certificate-not-an-extension", sig),
                                    format!("list {:?} certificate {:?} reference {:?}", list, mask_to_vec(m), masks_to_vecs(&witness_family)),
                                ));
                            }
                            if (q == Q::DC) != (m & qm != 0) {
                                return Err(Failure::new(
                                    format!("{}/certificate-membership-wrong", sig),
                                    format!("list {:?} certificate {:?}", list, mask_to_vec(m)),
                                ));
                            }
                        }
                    }
                }
            }
        }
        Ok(())
    }
}

impl Prop for Multi {
    type Case = MultiAny;
    fn id(&self) -> &'static str {
        "C07"
    }
    fn rule(&self) -> String {
        "Frameworks of <=9 (quick) / <=12 (thorough) arguments biased to 1-4 components, with a list of 1-3 arguments (one list in nine: 4-6; repetitions allowed) chosen freely, as the endpoints of an attack, or one per component; every static solver type implementing an acceptance trait x every selectable encoder x credulous/skeptical, with and without certificate, each on a fresh solver object; status must equal the disjunctive reference answer and the certificate must contain at least one / no listed member. One case in 150 is a union of 3-30 small components (20-200 arguments) with a list of up to three of its arguments: the disjunctive answer is exact by composition. Non-trivial: the list has >=2 distinct arguments and either spans >=2 components or its disjunctive answer differs from a member's single answer; distinct = (graph, presentation kind, problem, encoder, list).".into()
    }
    fn assumptions(&self) -> Vec<String> {
        vec!["oracle.rs reference semantics".into(), "lists of 1-3 arguments as the property states".into()]
    }
    fn strategy(&self, tier: Tier) -> BoxedStrategy<MultiAny> {
        let composite = crate::checks::statics::composite_strategy(tier).prop_map(MultiAny::Composite);
        let medium = (crate::checks::statics::medium_strategy(), 0u8..4, vec(any::<u16>(), 1..=3), (any::<u64>(), 0u8..3))
            .prop_map(|(gc, mode, picks, choice)| MultiAny::Small(MultiCase { gc, mode, picks, choice }));
        prop_oneof![150 => self.small_strategy(tier).prop_map(MultiAny::Small), 1 => composite, 2 => medium].boxed()
    }
    fn n_cases(&self, tier: Tier) -> u32 {
        tier.pick(45_000, 1_000_000)
    }
    fn run(&self, any: &MultiAny, rec: &mut Rec) -> CheckResult {
        match any {
            MultiAny::Small(c) => self.run_small(c, rec),
            MultiAny::Composite(c) => crate::checks::composite::run_lists(c, rec),
        }
    }
    fn enumerated(&self, tier: Tier) -> (Vec<MultiAny>, String) {
        let (v, d) = self.enumerated_small(tier);
        (v.into_iter().map(MultiAny::Small).collect(), d)
    }
}

impl Multi {
    fn small_strategy(&self, tier: Tier) -> BoxedStrategy<MultiCase> {
        let nmax = tier.pick(9, 12);
        (
            prop_oneof![3 => gen::graph_multi(nmax), 2 => gen::graph(nmax), 1 => skeptical_not_ideal(nmax)],
            gen::pres(nmax),
            prop_oneof![1 => Just(0u8), 1 => Just(1u8), 1 => Just(2u8), 2 => Just(3u8)],
            // mostly the 1-3 members the property quantifies over; one list in nine has 4-6 (its statement is general)
            prop_oneof![8 => vec(any::<u16>(), 1..=3), 1 => vec(any::<u16>(), 4..=6)],
            (any::<u64>(), 0u8..3),
        )
            .prop_filter("needs an argument", |(g, _, _, _, _)| g.n >= 1)
            .prop_map(|(g, pres, mode, picks, choice)| MultiCase { gc: GraphCase { g, pres }, mode, picks, choice })
            .boxed()
    }
    fn enumerated_small(&self, tier: Tier) -> (Vec<MultiCase>, String) {
        // all graphs on <=3 arguments x all non-empty lists of <=2 (quick) / <=3 (thorough) distinct positions
        let mut v = vec![];
        let maxlen = tier.pick(2, 3);
        for n in 1..=3usize {
            for g in gen::all_graphs(n) {
                let mut lists: Vec<Vec<usize>> = (0..n).map(|a| vec![a]).collect();
                for a in 0..n {
                    for b in 0..n {
                        lists.push(vec![a, b]);
                        if maxlen >= 3 {
                            for c in 0..n {
                                lists.push(vec![a, b, c]);
                            }
                        }
                    }
                }
                for l in lists {
                    // picks that resolve (mode 0) to exactly these positions
                    let picks = l.iter().map(|a| (((*a as u32) << 16) / n as u32 + 1) as u16).collect();
                    v.push(MultiCase {
                        gc: GraphCase { g: g.clone(), pres: Pres::Direct { offset: 0, order_keys: vec![] } },
                        mode: 0,
                        choice: (v.len() as u64, (v.len() % 3) as u8),
                        picks,
                    });
                }
            }
        }
        (v, format!("all digraphs on 1..=3 arguments x all lists of length <={}", maxlen))
    }
    fn run_small(&self, case: &MultiCase, rec: &mut Rec) -> CheckResult {
        if case.gc.g.n == 0 || case.picks.is_empty() {
            return Ok(());
        }
        let g = G::new(case.gc.g.n, &case.gc.g.att_usize());
        let fams = if g.n > 13 {
            // irregular graphs of 14-24 arguments: the backtracking reference
            match Fams::new_medium(&g) {
                Some(f) => {
                    rec.class("medium-size-graph-judged-by-backtracking-reference");
                    f
                }
                None => {
                    rec.class("medium-size-graph-skipped-too-many-extensions");
                    return Ok(());
                }
            }
        } else {
            Fams::new(&g)
        };
        let list = if case.mode == 3 {
            let full = g.full();
            let inter_pr = fams.pr.iter().fold(full, |a, b| a & b);
            let union_pr = fams.pr.iter().fold(0u32, |a, b| a | b);
            let inter_st = if fams.st.is_empty() { 0 } else { fams.st.iter().fold(full, |a, b| a & b) };
            let roles = [inter_pr & !fams.id, fams.id & !fams.gr, fams.gr, union_pr & !inter_pr, full & !union_pr, inter_st];
            case.picks
                .iter()
                .map(|p| {
                    let members = mask_to_vec(roles[(*p >> 13) as usize % roles.len()]);
                    if members.is_empty() {
                        idx(*p, g.n)
                    } else {
                        members[idx(p.wrapping_mul(8), members.len())]
                    }
                })
                .collect()
        } else {
            resolve_picks(&g, &case.gc.g.att, case.mode, &case.picks)
        };
        if case.mode == 3 {
            rec.class("list-picked-by-semantic-roles");
        }
        let qm: u32 = list.iter().fold(0, |m, a| m | (1 << a));
        let comps = g.components();
        let spans = comps.iter().filter(|c| *c & qm != 0).count();
        if qm.count_ones() >= 2 {
            rec.class(if spans >= 2 { "list-spans-components" } else { "list-in-one-component" });
            if list.iter().any(|a| g.targets[*a] & qm & !(1 << a) != 0) {
                rec.class("list-members-attack-each-other");
            }
        } else {
            rec.class("list-single-distinct-arg");
        }
        if list.iter().any(|a| g.targets[*a] & (1 << a) != 0) {
            rec.class("list-has-self-attacker");
        }
        if list.len() != qm.count_ones() as usize {
            rec.class("list-with-repetition");
        }
        match build(&case.gc) {
            Built::U(af, labels) => self.run_generic(&af, &labels, case, &g, &fams, &list, rec),
            Built::S(af, labels) => self.run_generic(&af, &labels, case, &g, &fams, &list, rec),
            Built::C(af, labels) => self.run_generic(&af, &labels, case, &g, &fams, &list, rec),
        }
    }
}
