//! C19 on frameworks of 30-300 arguments, exactly, by SAT: an independent encoding of the complete
//! semantics (one variable per argument, one "attacked by the set" variable per argument) is asked, for every
//! pair (first member, other member) of every class of the reduction, for a complete extension that
//! contains exactly one of the two. Any model is re-confirmed by the polynomial completeness test before it
//! is reported. The grounded / defeated clauses are judged with the linear grounded extension. This closes,
//! for the clause "only merges arguments in exactly the same complete extensions", the gap between the
//! brute-force oracle (<= 13 arguments) and arbitrary irregular components.

use crate::checks::metamorphic::{Adj, BigGraph};
use crate::engine::{CheckResult, Failure, Rec};
use crate::util::guard;
use crustabri::aa::AAFramework;
use crustabri::io::{Iccma23Reader, InstanceReader};
use crustabri::sat::{self, Literal, SolvingResult};
use crustabri::utils::EquivalencyComputer;
use proptest::collection::vec;
use proptest::prelude::*;
use serde::{Deserialize, Serialize};
use serde_json::json;

#[derive(Clone, Debug, PartialEq, Eq, Hash, Serialize, Deserialize)]
pub struct LargeEquiv {
    pub n: u16,
    /// shape: 0 sparse random (in-degree 1-2), 1 long even cycles with chords and tails, 2 layered
    pub shape: u8,
    pub words: Vec<u32>,
}

pub fn strategy() -> BoxedStrategy<LargeEquiv> {
    (30u16..=300, 0u8..3, vec(any::<u32>(), 24..=48)).prop_map(|(n, shape, words)| LargeEquiv { n, shape, words }).boxed()
}

/// The attack list of the case: every choice is a pure function of `words`.
pub fn graph(c: &LargeEquiv) -> BigGraph {
    let n = c.n as usize;
    let mut z: u64 = c.words.iter().fold(0x9E37_79B9_7F4A_7C15u64, |a, w| (a ^ *w as u64).wrapping_mul(0x1000_0000_01B3));
    let mut next = move || {
        z ^= z << 13;
        z ^= z >> 7;
        z ^= z << 17;
        z
    };
    let mut att: Vec<(u16, u16)> = vec![];
    match c.shape % 3 {
        0 => {
            // every argument gets 0-2 attackers drawn among all arguments: long implication chains, many
            // non-grounded arguments, few unattacked ones
            for b in 0..n {
                let k = [1usize, 1, 2, 2, 0, 1][(next() % 6) as usize];
                for _ in 0..k {
                    att.push(((next() % n as u64) as u16, b as u16));
                }
            }
        }
        1 => {
            // even cycles of 20-160 arguments (accepting one member forces half of the cycle), with a few
            // chords, tails hanging off them and unattacked arguments attacking some tails
            let mut start = 0usize;
            while start + 4 <= n {
                let len = ((20 + next() % 141) as usize & !1usize).min((n - start) & !1usize).max(2);
                for i in 0..len {
                    att.push(((start + i) as u16, (start + (i + 1) % len) as u16));
                }
                start += len;
                if next() % 3 == 0 {
                    break;
                }
            }
            for b in start..n {
                att.push(((next() % n.max(1) as u64) as u16, b as u16));
            }
            for _ in 0..(next() % 6) {
                att.push(((next() % n as u64) as u16, (next() % n as u64) as u16));
            }
        }
        _ => {
            // layers of 3-10 arguments, each argument attacked by 1-2 arguments of the previous layer, the first
            // layer being a mutual attack plus unattacked arguments
            let mut layers: Vec<Vec<usize>> = vec![];
            let mut i = 0usize;
            while i < n {
                let w = (3 + next() % 8) as usize;
                layers.push((i..(i + w).min(n)).collect());
                i += w;
            }
            if layers[0].len() >= 2 {
                att.push((layers[0][0] as u16, layers[0][1] as u16));
                att.push((layers[0][1] as u16, layers[0][0] as u16));
            }
            for l in 1..layers.len() {
                for &b in &layers[l] {
                    let prev = &layers[l - 1];
                    att.push((prev[(next() % prev.len() as u64) as usize] as u16, b as u16));
                    if next() % 2 == 0 {
                        att.push((prev[(next() % prev.len() as u64) as usize] as u16, b as u16));
                    }
                }
            }
        }
    }
    BigGraph { n, att }
}

pub fn run(c: &LargeEquiv, rec: &mut Rec) -> CheckResult {
    let g = graph(c);
    let n = g.n;
    if n == 0 {
        return Ok(());
    }
    let adj = Adj::new(&g);
    let mut t = format!("p af {}\n", n);
    for (a, b) in &g.att {
        t.push_str(&format!("{} {}\n", a + 1, b + 1));
    }
    let af: AAFramework<usize> = Iccma23Reader::default()
        .read(&mut t.as_bytes())
        .map_err(|e| Failure::new("C19/large/reader-rejected-generated-file", e.to_string()))?;
    rec.eval();
    rec.class(&format!("large-equivalence-case-shape-{}-n-{:03}+", c.shape % 3, (n / 50) * 50));
    let r = guard(|| {
        let ec = EquivalencyComputer::new(&af);
        let red = ec.reduced_af();
        let classes: Vec<Vec<usize>> = red.argument_set().iter().map(|ra| ec.reduced_arg_to_init_args(ra).iter().map(|a| *a.label() - 1).collect()).collect();
        let back: Vec<(usize, Vec<usize>)> =
            af.argument_set().iter().map(|a| (*a.label() - 1, ec.reduced_arg_to_init_args(ec.init_to_reduced_arg(a)).iter().map(|x| *x.label() - 1).collect())).collect();
        (classes, back)
    });
    let ctx = || format!("n {} attacks {:?}", n, g.att);
    let (classes, back) = r.map_err(|p| Failure::new("C19/large/panic", format!("{}; {}", p, ctx())).unshrinkable())?;
    let mut class_of = vec![usize::MAX; n];
    for (k, cl) in classes.iter().enumerate() {
        if cl.is_empty() {
            return Err(Failure::new("C19/large/empty-class", ctx()).unshrinkable());
        }
        for x in cl {
            if *x >= n || class_of[*x] != usize::MAX {
                return Err(Failure::new("C19/large/classes-overlap-or-foreign", ctx()).unshrinkable());
            }
            class_of[*x] = k;
        }
    }
    if class_of.iter().any(|k| *k == usize::MAX) {
        return Err(Failure::new("C19/large/classes-do-not-cover-all-arguments", ctx()).unshrinkable());
    }
    for (x, cls) in &back {
        let (mut a, mut b) = (cls.clone(), classes[class_of[*x]].clone());
        a.sort();
        b.sort();
        if a != b {
            return Err(Failure::new("C19/large/mappings-not-inverse", format!("argument {}; {}", x, ctx())).unshrinkable());
        }
    }
    // grounded and defeated arguments each within one class
    let gr = adj.grounded();
    let defeated = adj.attacked_by(&gr);
    for (name, set) in [("grounded-extension", &gr), ("defeated-arguments", &defeated)] {
        let members: Vec<usize> = (0..n).filter(|i| set[*i]).collect();
        if let Some(m0) = members.first() {
            if members.iter().any(|m| class_of[*m] != class_of[*m0]) {
                return Err(Failure::new(format!("C19/large/{}-split-over-classes", name), ctx()).unshrinkable());
            }
        }
    }
    // the reference encoding of the complete semantics
    let mut s = sat::default_solver();
    let x = |i: usize| (i + 1) as isize;
    let p = |i: usize| (n + 1 + i) as isize;
    for a in 0..n {
        let mut long = vec![Literal::from(-p(a))];
        for b in &adj.inc[a] {
            long.push(Literal::from(x(*b)));
            s.add_clause(vec![Literal::from(-x(*b)), Literal::from(p(a))]);
        }
        s.add_clause(long);
        s.add_clause(vec![Literal::from(-x(a)), Literal::from(-p(a))]);
        let mut reinstate = vec![Literal::from(x(a))];
        for b in &adj.inc[a] {
            s.add_clause(vec![Literal::from(-x(a)), Literal::from(p(*b))]);
            reinstate.push(Literal::from(-p(*b)));
        }
        s.add_clause(reinstate);
    }
    let mut pairs = 0u64;
    for cl in &classes {
        if cl.len() < 2 {
            continue;
        }
        let a = cl[0];
        for &b in &cl[1..] {
            for (inn, out) in [(a, b), (b, a)] {
                pairs += 1;
                if let SolvingResult::Satisfiable(m) = s.solve_under_assumptions(&[Literal::from(x(inn)), Literal::from(-x(out))]) {
                    let set: Vec<bool> = (0..n).map(|i| m.value_of(i + 1) == Some(true)).collect();
                    if !adj.complete(&set) || !set[inn] || set[out] {
                        std::panic::panic_any(crate::engine::Inconclusive(format!("C19 reference encoding of the complete semantics produced a non-complete set on {:?}", g.att)));
                    }
                    return Err(Failure::new(
                        "C19/large/merged-arguments-distinguished-by-a-complete-extension",
                        format!(
                            "arguments {} and {} share a class, the complete extension {:?} contains {} and not {}; {}",
                            a + 1,
                            b + 1,
                            (0..n).filter(|i| set[*i]).map(|i| i + 1).collect::<Vec<_>>(),
                            inn + 1,
                            out + 1,
                            ctx()
                        ),
                    )
                    .unshrinkable());
                }
            }
        }
    }
    rec.count("class-pairs-decided-by-sat", pairs);
    if classes.iter().any(|c| c.len() >= 2) && rec.nontrivial(c) {
        rec.sample(|| json!({"large_equivalence": {"arguments": n, "attacks": g.att.len(), "classes": classes.len(), "pairs_decided_by_sat": pairs}}));
    }
    Ok(())
}
