//! C05: the command-line tools print exactly the right answer, or none.

use crate::build::{apx_label, apx_text, iccma_text, order_from_keys};
use crate::checks::statics::{exp_cost, EXP_LIMIT};
use crate::engine::{CheckResult, Failure, Inconclusive, Prop, Rec, Tier};
use crate::extsat::FakeSat;
use crate::gen::{self, idx, AbsGraph};
use crate::oracle::{Fams, Sem, ALL_SEMS, G};
use crate::problem::{check_answer, Answer};
use crate::queries::Q;
use crate::refparse::{ref_apx, ref_iccma, RefOutcome};
use crate::repobin::{self, run_cli};
use proptest::collection::vec;
use proptest::prelude::*;
use serde::{Deserialize, Serialize};
use serde_json::json;
use std::time::Duration;

const LEVELS: [&str; 6] = ["off", "error", "warn", "info", "debug", "trace"];
const ENCODINGS: [&str; 3] = ["aux_var", "exp", "hybrid"];

#[derive(Clone, Debug, Serialize, Deserialize)]
pub struct GoodCase {
    pub g: AbsGraph,
    /// false: ICCMA'23 file, true: Aspartix file
    pub apx: bool,
    pub style: u8,
    pub order_keys: Vec<u8>,
    pub decor: u8,
    /// 0: `crustabri solve`, 1: `crustabri_iccma23` (ICCMA files only)
    pub tool: u8,
    pub sem: Sem,
    pub q: Q,
    pub case_mask: u16,
    pub arg: u16,
    pub cert: bool,
    /// 0 = option absent
    pub encoding: u8,
    /// 0 = option absent (default info)
    pub level: u8,
    pub explicit_reader: bool,
    pub external: bool,
    /// give -a although the query is SE (a warning, not an error)
    pub useless_arg: bool,
    /// number of additional isolated (unattacked, non-attacking) arguments: they belong to every extension of
    /// every semantics, so the reference stays exact while labels get 2-3 digits and witnesses > 100 members.
    /// Odd values put them before the core arguments (the core then has the large indices).
    #[serde(default)]
    pub pad: u8,
    /// query a padding argument instead of a core argument
    #[serde(default)]
    pub query_pad: bool,
    /// multiply the number of padding arguments by 40 (thousands of arguments, witness lines of tens of KB)
    #[serde(default)]
    pub pad_big: bool,
}

impl GoodCase {
    fn n_pad(&self) -> usize {
        self.pad as usize * if self.pad_big { 40 } else { 1 }
    }
}

#[derive(Clone, Debug, Serialize, Deserialize)]
pub enum CliCase {
    Good(GoodCase),
    /// (base good case, kind of breakage, variant)
    Bad(GoodCase, u8, u16),
}

pub struct Cli;

const BAD_KINDS: u8 = 14;
const BAD_PROBLEMS: [&str; 12] = ["SE-", "SE-XX", "SEPR", "SE--PR", " se-pr", "DC-PR-", "XX-PR", "-PR", "SE_PR", "SE-PRR", "SE-S", "DS-"];
const BAD_ICCMA: [&str; 10] = [
    "p af x\n",
    "p af 2\n3 1\n",
    "p af 2\n0 1\n",
    "p af 2\n1\n",
    "p af 2\n1 2 1\n",
    "q af 2\n1 2\n",
    "1 2\n",
    "p af 2\n\n1 2\n",
    "p af\n",
    "p af 2\na b\n",
];
const BAD_APX: [&str; 8] = [
    "arg(a)\n",
    "arg(a).\natt(a,b).\n",
    "arg(a).\natt(a,a).\narg(b).\n",
    "arg(a b).\n",
    "arg(a).\natt(a).\n",
    "argument(a).\n",
    "arg(a).\natt(a,a,a).\n",
    "arg(1a).\n",
];

fn problem_string(q: Q, sem: Sem, case_mask: u16) -> String {
    let s = format!("{}-{}", q.name(), sem.name());
    s.chars()
        .enumerate()
        .map(|(i, c)| if case_mask & (1 << i) != 0 { c.to_ascii_lowercase() } else { c })
        .collect()
}

struct Prepared {
    file_text: String,
    labels: Vec<String>,
    pad_labels: Vec<String>,
}

fn prepare(c: &GoodCase) -> Prepared {
    let n = c.g.n;
    let pad = c.n_pad();
    let pad_first = c.pad % 2 == 1;
    if c.apx {
        let labels: Vec<String> = (0..n).map(|i| apx_label(c.style, i)).collect();
        let pad_labels: Vec<String> = (0..pad).map(|k| format!("pad_{}_", k)).collect();
        let order = order_from_keys(n, &c.order_keys);
        let core = apx_text(&c.g, &labels, &order);
        let pads: String = pad_labels.iter().map(|l| format!("arg({}).\n", l)).collect();
        // arguments must all be declared before the first attack
        let split = core.find("att(").unwrap_or(core.len());
        let mut t = if pad_first { format!("{}{}", pads, core) } else { format!("{}{}{}", &core[..split], pads, &core[split..]) };
        match c.decor % 4 {
            1 => t = t.replace('\n', "\r\n"),
            2 => t = t.replace("\n", "\n\n"),
            3 => t = t.replace("arg(", "  arg( ").replace(").", " ). "),
            _ => {}
        }
        Prepared { file_text: t, labels, pad_labels }
    } else {
        let shift = if pad_first { pad } else { 0 };
        let mut t = format!("p af {}\n", n + pad);
        for (a, b) in &c.g.att {
            t.push_str(&format!("{} {}\n", *a as usize + 1 + shift, *b as usize + 1 + shift));
        }
        match c.decor % 5 {
            1 => t = t.replace('\n', "\r\n"),
            2 => t = format!("# generated\n{}# end\n", t),
            3 => t = format!("{}\n\n", t),
            4 => {
                t = t.replace(' ', "\t");
                t.pop();
            }
            _ => {}
        }
        let labels = (1..=n).map(|i| (i + shift).to_string()).collect();
        let pad_labels = if pad_first { (1..=pad).map(|i| i.to_string()).collect() } else { (n + 1..=n + pad).map(|i| i.to_string()).collect() };
        Prepared { file_text: t, labels, pad_labels }
    }
}

/// The three spellings clap accepts for a short option with a value: `-a 3`, `-a3`, `-a=3`.
fn push_opt(a: &mut Vec<String>, short: &str, value: String, style: u16) {
    match style % 3 {
        1 => a.push(format!("{}{}", short, value)),
        2 => a.push(format!("{}={}", short, value)),
        _ => {
            a.push(short.into());
            a.push(value);
        }
    }
}

fn base_args(c: &GoodCase, file: &str, arg_label: Option<String>, fake: &FakeSat) -> Vec<String> {
    base_args_spelt(c, file, arg_label, fake, false)
}

/// `vary`: the options -f, -p and -a are spelt in one of clap's three ways each (good cases only; the bad
/// cases patch the argument vector by position and keep the separate form).
fn base_args_spelt(c: &GoodCase, file: &str, arg_label: Option<String>, fake: &FakeSat, vary: bool) -> Vec<String> {
    let mut a: Vec<String> = vec![];
    if c.tool == 0 {
        a.push("solve".into());
    }
    let st = if vary { c.case_mask / 16 } else { 0 };
    // a third of the varied cases keep every option in the usual form
    let (sf, sp_, sa) = if st % 3 == 0 { (0, 0, 0) } else { (st / 3, st / 9, st / 27) };
    push_opt(&mut a, "-f", file.into(), sf);
    push_opt(&mut a, "-p", problem_string(c.q, c.sem, c.case_mask), sp_);
    if let Some(l) = arg_label {
        push_opt(&mut a, "-a", l, sa);
    }
    if c.tool == 0 {
        if c.apx {
            a.push("--reader".into());
            a.push("apx".into());
        } else if c.explicit_reader {
            a.push("-r".into());
            a.push("iccma23".into());
        }
        if c.cert {
            a.push(if c.case_mask & 1 == 0 { "--with-certificate".into() } else { "-c".into() });
        }
        if c.encoding != 0 {
            a.push("--encoding".into());
            a.push(ENCODINGS[(c.encoding as usize - 1) % 3].into());
        }
        if c.level != 0 {
            a.push("--logging-level".into());
            a.push(LEVELS[(c.level as usize - 1) % LEVELS.len()].into());
        }
        if c.external {
            a.push("--external-sat-solver".into());
            a.push(fake.exe.clone());
            a.push("--external-sat-solver-opt".into());
            a.push(fake.option());
        }
    }
    a
}

/// Parses the answer lines under the grammar of the format; Err = grammar violation.
fn parse_answer(lines: &[String], apx: bool, q: Q, labels: &[String], pad_labels: &[String]) -> Result<Answer, String> {
    let parse_set = |l: &str| -> Result<u32, String> {
        let mut pad_seen = vec![false; pad_labels.len()];
        let names: Vec<&str> = if apx {
            let inner = l.strip_prefix('[').and_then(|x| x.strip_suffix(']')).ok_or_else(|| format!("not a bracketed list: {:?}", l))?;
            if inner.is_empty() {
                vec![]
            } else {
                inner.split(',').collect()
            }
        } else {
            let rest = l.strip_prefix('w').ok_or_else(|| format!("not a witness line: {:?}", l))?;
            if rest.is_empty() {
                vec![]
            } else {
                let rest = rest.strip_prefix(' ').ok_or_else(|| format!("not a witness line: {:?}", l))?;
                rest.split(' ').collect()
            }
        };
        let mut m = 0u32;
        for nme in names {
            if let Some(k) = pad_labels.iter().position(|x| x == nme) {
                if pad_seen[k] {
                    return Err(format!("label {:?} twice in the set", nme));
                }
                pad_seen[k] = true;
                continue;
            }
            let i = labels.iter().position(|x| x == nme).ok_or_else(|| format!("unknown label {:?} in the set {:?}", nme, l.chars().take(200).collect::<String>()))?;
            if m & (1 << i) != 0 {
                return Err(format!("label {:?} twice in the set", nme));
            }
            m |= 1 << i;
        }
        if let Some(k) = pad_seen.iter().position(|b| !*b) {
            // an isolated argument belongs to every extension of every semantics
            return Err(format!("WRONG-SET: the isolated argument {:?} is missing from the printed set", pad_labels[k]));
        }
        Ok(m)
    };
    match q {
        Q::SE => {
            if lines.len() != 1 {
                return Err(format!("expected exactly one line, got {:?}", lines));
            }
            if lines[0] == "NO" {
                Ok(Answer { status: None, set: None })
            } else {
                Ok(Answer { status: None, set: Some(parse_set(&lines[0])?) })
            }
        }
        _ => {
            if lines.is_empty() || lines.len() > 2 {
                return Err(format!("expected one or two lines, got {:?}", lines));
            }
            let status = match lines[0].as_str() {
                "YES" => true,
                "NO" => false,
                o => return Err(format!("status line is {:?}", o)),
            };
            let set = if lines.len() == 2 { Some(parse_set(&lines[1])?) } else { None };
            Ok(Answer { status: Some(status), set })
        }
    }
}

impl Cli {
    fn feasible(c: &GoodCase) -> bool {
        // `--encoding exp` (and SE-* defaults never use exp for complete) on dense graphs is exponential by design
        let cost = exp_cost(&c.g, !c.apx);
        let uses_exp_complete = c.tool == 0 && c.encoding != 0 && ENCODINGS[(c.encoding as usize - 1) % 3] == "exp" && c.sem != Sem::STG;
        !(uses_exp_complete && cost > EXP_LIMIT)
    }

    fn good(&self, c: &GoodCase, rec: &mut Rec) -> CheckResult {
        if !Self::feasible(c) || (c.g.n == 0 && c.n_pad() == 0 && c.q != Q::SE) {
            return Ok(());
        }
        let (solve_bin, iccma_bin) = repobin::ensure().unwrap_or_else(|e| std::panic::panic_any(Inconclusive(e)));
        let fake = FakeSat::get();
        fake.configure(json!({}));
        let p = prepare(c);
        let file = fake.dir.join(if c.apx { "instance.apx" } else { "instance.af" });
        // one ICCMA instance in thirteen carries a comment line with a Latin-1 byte (not UTF-8) after its
        // header: the tool may refuse the file (non-zero exit, no answer) or must answer for the whole of it
        let latin1_comment = !c.apx && c.case_mask % 13 == 7 && c.decor % 5 != 1 && c.decor % 5 != 4;
        if latin1_comment {
            let mut bytes = p.file_text.clone().into_bytes();
            let at = bytes.iter().position(|b| *b == b'\n').map(|i| i + 1).unwrap_or(bytes.len());
            bytes.splice(at..at, b"# caf\xe9 au lait\n".iter().copied());
            std::fs::write(&file, &bytes).expect("cannot write instance");
            rec.class("instance-with-a-non-utf8-comment-line");
        } else {
            std::fs::write(&file, &p.file_text).expect("cannot write instance");
        }
        let g = G::new(c.g.n, &c.g.att_usize());
        let fams = match Fams::auto(&g) {
            Some(f) => f,
            None => return Ok(()),
        };
        if g.n > 13 {
            rec.class("core-graph-of-14-24-arguments");
        }
        let a = idx(c.arg, g.n.max(1));
        let query_pad = c.query_pad && !p.pad_labels.is_empty() && c.q != Q::SE;
        let arg_label = if query_pad {
            Some(p.pad_labels[idx(c.arg, p.pad_labels.len())].clone())
        } else if (c.q != Q::SE && g.n > 0) || (c.useless_arg && g.n > 0) {
            Some(p.labels[a].clone())
        } else if c.q != Q::SE {
            // no core argument: query a padding argument if there is one
            match p.pad_labels.first() {
                Some(l) => Some(l.clone()),
                None => return Ok(()),
            }
        } else {
            None
        };
        let query_pad = query_pad || (c.q != Q::SE && g.n == 0);
        // one good case in eleven hands the instance over through a named pipe: a readable file whose
        // metadata say nothing about its length and that can be read once, from start to end
        let mut feeder: Option<std::process::Child> = None;
        let mut file_arg = file.to_string_lossy().to_string();
        if c.case_mask % 11 == 5 {
            let fifo = fake.dir.join(if c.apx { "instance-pipe.apx" } else { "instance-pipe.af" });
            let _ = std::fs::remove_file(&fifo);
            let made = std::process::Command::new("mkfifo").arg(&fifo).stderr(std::process::Stdio::null()).status().map(|s| s.success()).unwrap_or(false);
            if made {
                feeder = std::process::Command::new("sh")
                    .arg("-c")
                    .arg("exec cat \"$1\" > \"$2\"")
                    .arg("sh")
                    .arg(&file)
                    .arg(&fifo)
                    .stdin(std::process::Stdio::null())
                    .stderr(std::process::Stdio::null())
                    .spawn()
                    .ok();
                if feeder.is_some() {
                    file_arg = fifo.to_string_lossy().to_string();
                    rec.class("instance-through-a-named-pipe");
                }
            }
        }
        let mut args = base_args_spelt(c, &file_arg, arg_label, &fake, true);
        if args.iter().any(|x| x.starts_with("-a") && x.len() > 2 || x.starts_with("-p") && x.len() > 2 || x.starts_with("-f") && x.len() > 2) {
            rec.class("option-value-attached-or-with-equals-sign");
        }
        let bin = if c.tool == 0 { &solve_bin } else { &iccma_bin };
        // one external-solver case in three names the solver by its bare name (found through PATH) and runs
        // from a working directory that happens to contain an entry of that name (a checkout, a log directory)
        let mut run_from: Option<(std::path::PathBuf, std::path::PathBuf)> = None;
        if c.tool == 0 && c.external && c.case_mask % 3 == 1 {
            if let Some(i) = args.iter().position(|a| a == "--external-sat-solver") {
                let exe = std::path::PathBuf::from(&args[i + 1]);
                if let (Some(dir), Some(name)) = (exe.parent(), exe.file_name()) {
                    let cwd = fake.dir.join("cwd with shadow");
                    let _ = std::fs::create_dir_all(cwd.join(name));
                    args[i + 1] = name.to_string_lossy().to_string();
                    run_from = Some((cwd, dir.to_path_buf()));
                    rec.class("external-solver-by-bare-name-with-a-same-named-entry-in-the-working-directory");
                }
            }
        }
        rec.eval();
        let out = match &run_from {
            Some((cwd, dir)) => repobin::run_cli_in(bin, &args, Duration::from_secs(120), Some(cwd), Some(dir)),
            None => run_cli(bin, &args, Duration::from_secs(120)),
        };
        if let Some(mut f) = feeder {
            // the feeder ends when the tool has read (or refused to open) the pipe; do not leave it behind
            if !matches!(f.try_wait(), Ok(Some(_))) {
                let _ = f.kill();
            }
            let _ = f.wait();
            let _ = std::fs::remove_file(fake.dir.join(if c.apx { "instance-pipe.apx" } else { "instance-pipe.af" }));
        }
        if out.timed_out {
            std::panic::panic_any(Inconclusive(format!("CLI timed out: {:?}", args)));
        }
        let name = format!("{}-{}", c.q.name(), c.sem.name());
        let tool = if c.tool == 0 { "solve" } else { "iccma23-wrapper" };
        let sig = format!("C05/{}/{}", tool, name);
        let ctx = || format!("argv {:?} file {:?} exit {:?} stdout {:?} stderr {:?}", args, p.file_text, out.code, out.stdout, out.stderr.chars().take(300).collect::<String>());
        if latin1_comment && out.code != Some(0) && out.code.is_some() && repobin::answer_lines(&out.stdout).iter().all(|l| !repobin::looks_like_answer(l)) {
            // refused as unreadable: allowed
            rec.class("non-utf8-instance-refused-without-answer");
            return Ok(());
        }
        if out.code != Some(0) {
            return Err(Failure::new(format!("{}/non-zero-exit-on-valid-invocation", sig), ctx()));
        }
        let logging_off = c.tool == 1 || (c.level != 0 && LEVELS[(c.level as usize - 1) % LEVELS.len()] == "off");
        let all_lines: Vec<String> = out.stdout.lines().map(|l| l.to_string()).collect();
        let lines = repobin::answer_lines(&out.stdout);
        if logging_off && lines.len() != all_lines.len() {
            return Err(Failure::new(format!("{}/log-lines-although-logging-is-off", sig), ctx()));
        }
        if !out.stdout.is_empty() && !out.stdout.ends_with('\n') {
            return Err(Failure::new(format!("{}/answer-not-newline-terminated", sig), ctx()));
        }
        let cert = c.tool == 1 || c.cert;
        let ans = parse_answer(&lines, c.apx, c.q, &p.labels, &p.pad_labels).map_err(|e| {
            if e.starts_with("WRONG-SET") {
                Failure::new(format!("{}/wrong-answer/isolated-argument-missing-from-set", sig), format!("{} | {}", e, ctx()))
            } else {
                Failure::new(format!("{}/stdout-outside-answer-grammar", sig), format!("{} | {}", e, ctx()))
            }
        })?;
        if query_pad {
            // an isolated argument is in every extension: DC iff an extension exists, DS always
            let exts = fams.exts(c.sem);
            let expected = if c.q == Q::DC { !exts.is_empty() } else { true };
            if ans.status != Some(expected) {
                return Err(Failure::new(format!("{}/wrong-answer/isolated-argument-status", sig), ctx()));
            }
            let promised = cert && c.q == Q::DC && expected;
            match (promised, ans.set) {
                (false, None) => {}
                (true, Some(m)) => {
                    let fam = if c.sem == Sem::PR { fams.co.clone() } else { exts };
                    if !fam.contains(&m) {
                        return Err(Failure::new(format!("{}/wrong-answer/certificate-not-an-extension", sig), ctx()));
                    }
                }
                _ => return Err(Failure::new(format!("{}/wrong-answer/certificate-presence", sig), ctx())),
            }
        } else {
            check_answer(&ans, &fams, c.q, c.sem, a, cert).map_err(|(what, msg)| Failure::new(format!("{}/wrong-answer/{}", sig, what), format!("{} | {}", msg, ctx())))?;
        }
        if c.n_pad() >= 10 {
            rec.class("labels-with-2-or-3-digits");
        }
        if c.n_pad() >= 1000 {
            rec.class("thousands-of-arguments");
        }
        rec.class(&format!("tool-{}", tool));
        rec.class(if c.apx { "format-apx" } else { "format-iccma23" });
        if c.external && c.tool == 0 {
            rec.class("external-sat-solver");
        }
        if c.tool == 0 {
            rec.class(&format!("level-{}", if c.level == 0 { "default" } else { LEVELS[(c.level as usize - 1) % LEVELS.len()] }));
        }
        if (c.q != Q::SE && cert) && rec.nontrivial(&(&p.file_text, &args[..])) {
            rec.sample_sized(p.file_text.len(), || json!({"argv": args, "file": p.file_text, "stdout": out.stdout, "exit": out.code}));
        }
        Ok(())
    }

    fn bad(&self, c: &GoodCase, kind: u8, variant: u16, rec: &mut Rec) -> CheckResult {
        let (solve_bin, iccma_bin) = repobin::ensure().unwrap_or_else(|e| std::panic::panic_any(Inconclusive(e)));
        let fake = FakeSat::get();
        fake.configure(json!({}));
        let mut c = c.clone();
        if c.g.n == 0 {
            c.g = AbsGraph { n: 2, att: vec![(0, 1)] };
        }
        let p = prepare(&c);
        let file = fake.dir.join(if c.apx { "instance.apx" } else { "instance.af" });
        std::fs::write(&file, &p.file_text).expect("cannot write instance");
        let n = c.g.n;
        let a = idx(c.arg, n);
        let mut file_arg = file.to_string_lossy().to_string();
        let mut arg_label = if c.q != Q::SE { Some(p.labels[a].clone()) } else { None };
        let v = variant as usize;
        let mut post: Box<dyn Fn(&mut Vec<String>)> = Box::new(|_| {});
        let what: &str;
        match kind % BAD_KINDS {
            0 => {
                what = "missing-file";
                file_arg = fake.dir.join("does-not-exist.af").to_string_lossy().to_string();
            }
            1 => {
                what = "directory-as-file";
                file_arg = fake.dir.to_string_lossy().to_string();
            }
            2 => {
                what = "ill-formed-file";
                // a short ill-formed file, or the (possibly long) well-formed file of this case with one bad line at its very end
                let late = v % 3 == 0;
                let t: String = if late {
                    let mut base = p.file_text.replace("\r\n", "\n");
                    while base.ends_with("\n\n") {
                        base.pop();
                    }
                    if !base.ends_with('\n') {
                        base.push('\n');
                    }
                    if c.apx {
                        format!("{}att({},undeclared_zz_).\n", base, p.labels.first().cloned().unwrap_or_else(|| "a".into()))
                    } else {
                        format!("{}{} 1\n", base, n + c.n_pad() + 1)
                    }
                } else if c.apx {
                    BAD_APX[v % BAD_APX.len()].to_string()
                } else {
                    BAD_ICCMA[v % BAD_ICCMA.len()].to_string()
                };
                // only inputs the reference parser rejects
                let r = if c.apx { ref_apx(t.as_bytes()) } else { ref_iccma(t.as_bytes()) };
                if !matches!(r, RefOutcome::Reject(_)) {
                    return Ok(());
                }
                std::fs::write(&file, &t).unwrap();
            }
            3 => {
                what = "unknown-problem";
                // fixed near misses, and near misses derived from the valid name of this case
                let valid = problem_string(c.q, c.sem, c.case_mask);
                let derived = [
                    format!("{}-", valid),
                    format!("{}-x", valid),
                    format!("{}-{}", valid, c.sem.name()),
                    format!("-{}", valid),
                    format!("{} ", valid),
                    valid.replace('-', "--"),
                    valid.replace('-', "_"),
                    valid.replace('-', ""),
                    format!("{}X", valid),
                    format!("X{}", valid),
                    valid.replace('-', " - "),
                    format!("{}-{}", valid, valid),
                ];
                let all = BAD_PROBLEMS.len() + derived.len();
                let bp = if v % all < BAD_PROBLEMS.len() { BAD_PROBLEMS[v % all].to_string() } else { derived[v % all - BAD_PROBLEMS.len()].clone() };
                post = Box::new(move |args: &mut Vec<String>| {
                    if let Some(i) = args.iter().position(|x| x == "-p") {
                        args[i + 1] = bp.clone();
                    }
                });
            }
            4 => {
                what = "missing-query-argument";
                if c.q == Q::SE {
                    c.q = if v % 2 == 0 { Q::DC } else { Q::DS };
                }
                arg_label = None;
                c.useless_arg = false;
            }
            5 => {
                what = "unknown-query-argument";
                if c.q == Q::SE {
                    c.q = if v % 2 == 0 { Q::DC } else { Q::DS };
                }
                let bads: Vec<String> = if c.apx {
                    vec!["no_such_arg".into(), "1".into(), "A".into(), format!("{}x", p.labels[a])]
                } else {
                    vec!["0".into(), (n + c.n_pad() + 1).to_string(), "a".into(), "1.5".into(), "99999999999999999999".into()]
                };
                arg_label = Some(bads[v % bads.len()].clone());
            }
            6 => {
                what = "unknown-flag";
                post = Box::new(|args: &mut Vec<String>| args.push("--frobnicate".into()));
            }
            7 => {
                what = "bad-encoding-value";
                if c.tool != 0 {
                    return Ok(());
                }
                post = Box::new(|args: &mut Vec<String>| {
                    args.push("--encoding".into());
                    args.push("naive".into());
                });
                c.encoding = 0;
            }
            8 => {
                what = "bad-reader-value";
                if c.tool != 0 {
                    return Ok(());
                }
                let r = ["tgf", "iccma23_aba", "APX"][v % 3].to_string();
                post = Box::new(move |args: &mut Vec<String>| {
                    args.retain(|x| x != "--reader" && x != "-r" && x != "apx" && x != "iccma23");
                    args.push("--reader".into());
                    args.push(r.clone());
                });
            }
            9 => {
                what = "bad-logging-level";
                if c.tool != 0 {
                    return Ok(());
                }
                c.level = 0;
                post = Box::new(|args: &mut Vec<String>| {
                    args.push("--logging-level".into());
                    args.push("verbose".into());
                });
            }
            10 => {
                what = "missing-problem-option";
                post = Box::new(|args: &mut Vec<String>| {
                    if let Some(i) = args.iter().position(|x| x == "-p") {
                        args.drain(i..i + 2);
                    }
                });
            }
            11 => {
                what = "missing-file-option";
                post = Box::new(|args: &mut Vec<String>| {
                    if let Some(i) = args.iter().position(|x| x == "-f") {
                        args.drain(i..i + 2);
                    }
                });
            }
            12 => {
                what = "wrong-reader-for-file";
                if c.tool != 0 {
                    return Ok(());
                }
                // an Aspartix file given to the ICCMA reader and vice versa, when that reader's reference rejects it
                let r = if c.apx { ref_iccma(p.file_text.as_bytes()) } else { ref_apx(p.file_text.as_bytes()) };
                if !matches!(r, RefOutcome::Reject(_)) {
                    return Ok(());
                }
                let apx = c.apx;
                post = Box::new(move |args: &mut Vec<String>| {
                    args.retain(|x| x != "--reader" && x != "-r" && x != "apx" && x != "iccma23");
                    args.push("--reader".into());
                    args.push(if apx { "iccma23".into() } else { "apx".into() });
                });
            }
            _ => {
                what = "external-solver-does-not-exist";
                if c.tool != 0 || matches!(c.sem, Sem::GR) || (c.sem == Sem::CO && c.q != Q::DC) {
                    return Ok(());
                }
                c.external = false;
                let bogus = fake.dir.join("no-such-solver").to_string_lossy().to_string();
                post = Box::new(move |args: &mut Vec<String>| {
                    args.push("--external-sat-solver".into());
                    args.push(bogus.clone());
                });
                // the framework must make the solver actually call SAT: keep it non-trivial
                if c.g.n == 0 {
                    return Ok(());
                }
            }
        }
        let mut args = base_args(&c, &file_arg, arg_label, &fake);
        post(&mut args);
        let bin = if c.tool == 0 { &solve_bin } else { &iccma_bin };
        rec.eval();
        let out = run_cli(bin, &args, Duration::from_secs(120));
        if out.timed_out {
            std::panic::panic_any(Inconclusive(format!("CLI timed out: {:?}", args)));
        }
        let tool = if c.tool == 0 { "solve" } else { "iccma23-wrapper" };
        let ctx = || format!("argv {:?} exit {:?} stdout {:?} stderr {:?}", args, out.code, out.stdout, out.stderr.chars().take(300).collect::<String>());
        if what == "external-solver-does-not-exist" {
            // only an error if the computation needed the solver; judge by the exit status alone when it succeeded
            if out.code == Some(0) {
                return Ok(());
            }
        } else if out.code == Some(0) {
            return Err(Failure::new(format!("C05/{}/bad-invocation/{}/exit-status-0", tool, what), ctx()));
        }
        let answers: Vec<String> = repobin::answer_lines(&out.stdout).into_iter().filter(|l| repobin::looks_like_answer(l)).collect();
        if !answers.is_empty() {
            return Err(Failure::new(format!("C05/{}/bad-invocation/{}/answer-printed", tool, what), ctx()));
        }
        rec.class(&format!("bad-{}", what));
        if rec.nontrivial(&args) {
            rec.sample(|| json!({"bad_invocation": what, "argv": args, "exit": out.code, "stdout": out.stdout}));
        }
        Ok(())
    }

    fn problems_listing(&self, rec: &mut Rec) -> Result<(), Failure> {
        let (solve_bin, iccma_bin) = repobin::ensure().unwrap_or_else(|e| std::panic::panic_any(Inconclusive(e)));
        let mut want: Vec<String> = vec![];
        for q in [Q::SE, Q::DC, Q::DS] {
            for s in ALL_SEMS {
                want.push(format!("{}-{}", q.name(), s.name()));
            }
        }
        want.sort();
        for (bin, args) in [(&solve_bin, vec!["problems".to_string(), "--logging-level".into(), "off".into()]), (&iccma_bin, vec!["--problems".to_string()])] {
            rec.eval();
            let out = run_cli(bin, &args, Duration::from_secs(60));
            let lines = repobin::answer_lines(&out.stdout);
            let ok = out.code == Some(0) && lines.len() == 1 && lines[0].starts_with('[') && lines[0].ends_with(']');
            if !ok {
                return Err(Failure::new("C05/problems-listing/unexpected-output", format!("argv {:?} exit {:?} stdout {:?}", args, out.code, out.stdout)));
            }
            let mut got: Vec<String> = lines[0][1..lines[0].len() - 1].split(',').map(|s| s.to_string()).collect();
            got.sort();
            if got != want {
                return Err(Failure::new("C05/problems-listing/not-the-21-problems", format!("listed {:?}", got)));
            }
        }
        Ok(())
    }
}

fn good_case(nmax: usize) -> BoxedStrategy<GoodCase> {
    good_case_over(gen::graph(nmax), nmax)
}

/// Instances whose core is an irregular graph of 14-24 arguments (judged by the backtracking reference).
fn good_case_medium() -> BoxedStrategy<GoodCase> {
    good_case_over(gen::graph_single(24).prop_filter("14 arguments at least", |g| g.n >= 14).boxed(), 24)
}

fn good_case_over(graph: BoxedStrategy<gen::AbsGraph>, nmax: usize) -> BoxedStrategy<GoodCase> {
    (
        (graph, any::<bool>(), prop_oneof![10 => 0u8..4, 1 => Just(4u8)], vec(any::<u8>(), nmax), 0u8..6),
        (0u8..3, 0usize..7, 0u8..3, any::<u16>(), any::<u16>(), any::<bool>()),
        (0u8..4, 0u8..7, any::<bool>(), prop_oneof![9 => Just(false), 1 => Just(true)], prop_oneof![9 => Just(false), 1 => Just(true)], prop_oneof![3 => Just(0u8), 2 => 1u8..12, 2 => 12u8..130], prop_oneof![4 => Just(false), 1 => Just(true)], prop_oneof![15 => Just(false), 1 => Just(true)]),
    )
        .prop_map(|((g, apx, style, order_keys, decor), (tool, s, q, case_mask, arg, cert), (encoding, level, explicit_reader, external, useless_arg, pad, query_pad, pad_big))| {
            GoodCase {
                g,
                apx,
                style,
                order_keys,
                decor,
                // the wrapper reads ICCMA'23 files only
                tool: if apx || tool < 2 { 0 } else { 1 },
                sem: ALL_SEMS[s],
                q: [Q::SE, Q::DC, Q::DS][q as usize],
                case_mask,
                arg,
                cert,
                encoding,
                level,
                explicit_reader,
                external,
                useless_arg,
                pad,
                query_pad,
                // thousands of components through an external solver process would take minutes
                pad_big: pad_big && !external,
            }
        })
        .boxed()
}

impl Prop for Cli {
    type Case = CliCase;
    fn id(&self) -> &'static str {
        "C05"
    }
    fn rule(&self) -> String {
        "Instance files written by the harness in both formats (<=7 core arguments plus, in 57% of the cases, 1-129 isolated arguments placed before or after them - they belong to every extension, so the reference stays exact while labels get 2-3 digits and witnesses over 100 members; one case in 28 has 40 times as many, i.e. up to 5160 arguments and witness lines of tens of KB; the queried argument may be one of them; decorated with comment lines, CRLF, blank lines, tabs, missing final newline, spaces around identifiers) x the 21 problems in random letter case x an argument x {--reader/-r, --encoding, --with-certificate/-c, --logging-level in {off,error,warn,info,debug,trace}, --external-sat-solver fake_sat, a useless -a with SE} for `crustabri solve`, and -f/-p/-a for `crustabri_iccma23`. Oracle: exit status 0; stdout minus the logger's `![` lines is exactly the answer grammar of the format (nothing may be removed when logging is off), parsed and judged against the brute-force reference (status, witness validity, witness presence exactly when promised). Bad invocations (14 kinds: missing/unreadable file, directory, ill-formed file by the C13 reference, near-miss problem strings, DC/DS without -a, unknown / out-of-range -a, unknown flag, bad --encoding/--reader/--logging-level values, missing -p or -f, wrong reader for the file, non-existent external solver) must exit non-zero without any line of the answer grammar. `problems` / `--problems` must list exactly the 21 problems. Non-trivial: a DC/DS problem with certificate, or any bad invocation; distinct = (file, argv).".into()
    }
    fn assumptions(&self) -> Vec<String> {
        vec!["oracle.rs; refparse.rs for the ill-formed files".into(), "the logger prefixes every log line with `![`".into()]
    }
    fn setup(&self, _tier: Tier) -> Result<(), String> {
        repobin::ensure().map(|_| ())
    }
    fn strategy(&self, _tier: Tier) -> BoxedStrategy<CliCase> {
        prop_oneof![
            78 => good_case(7).prop_map(CliCase::Good),
            4 => good_case_medium().prop_map(CliCase::Good),
            22 => (good_case(5), 0u8..BAD_KINDS, any::<u16>()).prop_map(|(c, k, v)| CliCase::Bad(c, k, v)),
        ]
        .boxed()
    }
    fn n_cases(&self, tier: Tier) -> u32 {
        tier.pick(3_200, 60_000)
    }
    fn run(&self, case: &CliCase, rec: &mut Rec) -> CheckResult {
        match case {
            CliCase::Good(c) => self.good(c, rec),
            CliCase::Bad(c, k, v) => self.bad(c, *k, *v, rec),
        }
    }
    fn extra_phase(&self, _tier: Tier, _seed: u64, rec: &mut Rec) -> Result<(), (CliCase, Failure)> {
        self.problems_listing(rec).map_err(|f| {
            (
                CliCase::Bad(
                    GoodCase {
                        g: AbsGraph { n: 0, att: vec![] },
                        apx: false,
                        style: 0,
                        order_keys: vec![],
                        decor: 0,
                        tool: 0,
                        sem: Sem::GR,
                        q: Q::SE,
                        case_mask: 0,
                        arg: 0,
                        cert: false,
                        encoding: 0,
                        level: 0,
                        explicit_reader: false,
                        external: false,
                        useless_arg: false,
                        pad: 0,
                        query_pad: false,
                        pad_big: false,
                    },
                    255,
                    0,
                ),
                f,
            )
        })
    }
}
