//! C19: arguments merged by the equivalence reduction are indistinguishable.

use crate::build::{build, Built};
use crate::engine::{CheckResult, Failure, Prop, Rec, Tier};
use crate::gen::{self, GraphCase, Pres};
use crate::oracle::{Fams, G};
use crate::util::{guard, mask_to_vec, masks_to_vecs};
use crustabri::aa::AAFramework;
use crustabri::utils::{EquivalencyComputer, LabelType};
use proptest::prelude::*;
use serde_json::json;

pub struct Equiv;

#[derive(Clone, Debug, serde::Serialize, serde::Deserialize)]
pub enum EquivAny {
    Small(GraphCase),
    /// a union of many small components (20-200 arguments): the complete extensions are the products of
    /// the components' complete extensions, so "same complete extensions" is decided exactly per component
    Composite(crate::checks::composite::CompositeCase),
    /// in-degrees of 2^16 and beyond
    HugeFan(crate::checks::hugefan::HugeFan),
    /// 30-300 arguments, merges judged exactly by SAT (equiv_large.rs)
    Large(crate::checks::equiv_large::LargeEquiv),
}

#[derive(Clone, PartialEq, Eq, Debug)]
enum Sig {
    InAll,
    InNone,
    Mixed(usize, Vec<bool>),
}

fn run_composite(case: &crate::checks::composite::CompositeCase, rec: &mut Rec) -> CheckResult {
    use crate::checks::composite::{attack_nodes, label_of, layout, text};
    use crustabri::io::{AspartixReader, Iccma23Reader, InstanceReader};
    let lay = layout(case);
    if lay.n == 0 {
        return Ok(());
    }
    rec.eval();
    let reference = crate::checks::composite::reference(case);
    let fams = &reference.fams;
    let sig_of = |node: usize| -> Sig {
        let (c, l) = lay.comp_of[node];
        let v: Vec<bool> = fams[c].co.iter().map(|e| e & (1u64 << l) != 0).collect();
        if v.iter().all(|b| *b) {
            Sig::InAll
        } else if v.iter().all(|b| !*b) {
            Sig::InNone
        } else {
            Sig::Mixed(c, v)
        }
    };
    let t = text(case);
    let index: std::collections::HashMap<String, usize> = (0..lay.n).map(|i| (label_of(case, &lay, i), i)).collect();
    // classes as node sets, and the class reached from every original argument
    fn classes_of<T: LabelType>(af: &AAFramework<T>) -> Result<(Vec<Vec<String>>, Vec<(String, Vec<String>)>), String> {
        guard(|| {
            let ec = EquivalencyComputer::new(af);
            let red = ec.reduced_af();
            let classes: Vec<Vec<String>> =
                red.argument_set().iter().map(|ra| ec.reduced_arg_to_init_args(ra).iter().map(|a| a.label().to_string()).collect()).collect();
            let back: Vec<(String, Vec<String>)> = af
                .argument_set()
                .iter()
                .map(|a| (a.label().to_string(), ec.reduced_arg_to_init_args(ec.init_to_reduced_arg(a)).iter().map(|x| x.label().to_string()).collect()))
                .collect();
            (classes, back)
        })
    }
    let r = if case.apx {
        let af = AspartixReader::default().read(&mut t.as_bytes()).map_err(|e| Failure::new("C19/composite/reader-rejected-generated-file", e.to_string()))?;
        classes_of(&af)
    } else {
        let af = Iccma23Reader::default().read(&mut t.as_bytes()).map_err(|e| Failure::new("C19/composite/reader-rejected-generated-file", e.to_string()))?;
        classes_of(&af)
    };
    let (classes, back) = r.map_err(|p| Failure::new("C19/composite/panic", format!("{}\n{}", p, t)))?;
    let mut seen = vec![false; lay.n];
    let mut class_of_node = vec![usize::MAX; lay.n];
    for (k, c) in classes.iter().enumerate() {
        if c.is_empty() {
            return Err(Failure::new("C19/composite/empty-class", t.clone()));
        }
        let mut first: Option<Sig> = None;
        for l in c {
            let node = *index.get(l).ok_or_else(|| Failure::new("C19/composite/class-has-foreign-argument", l.clone()))?;
            if seen[node] {
                return Err(Failure::new("C19/composite/classes-overlap", format!("argument {}\n{}", l, t)));
            }
            seen[node] = true;
            class_of_node[node] = k;
            let sg = sig_of(node);
            match &first {
                None => first = Some(sg),
                Some(f) => {
                    if *f != sg {
                        return Err(Failure::new(
                            "C19/composite/merged-arguments-distinguished-by-a-complete-extension",
                            format!("class {:?}: argument {} has {:?}, another member has {:?}\n{}", c, l, sg, f, t),
                        ));
                    }
                }
            }
        }
    }
    if seen.iter().any(|b| !*b) {
        return Err(Failure::new("C19/composite/classes-do-not-cover-all-arguments", t.clone()));
    }
    for (l, cls) in &back {
        let node = index[l];
        let k = class_of_node[node];
        let mut a = cls.clone();
        let mut b = classes[k].clone();
        a.sort();
        b.sort();
        if a != b {
            return Err(Failure::new("C19/composite/mappings-not-inverse", format!("argument {} maps to a class {:?} that is not its class {:?}\n{}", l, cls, classes[k], t)));
        }
    }
    // grounded arguments together; arguments defeated by the grounded extension together
    let grounded: Vec<usize> = (0..lay.n).filter(|i| sig_of(*i) == Sig::InAll).collect();
    if let Some(g0) = grounded.first() {
        if grounded.iter().any(|g| class_of_node[*g] != class_of_node[*g0]) {
            return Err(Failure::new("C19/composite/grounded-extension-split-over-classes", t.clone()));
        }
    }
    let atts = attack_nodes(case);
    let defeated: Vec<usize> = (0..lay.n).filter(|i| atts.iter().any(|(a, b)| b == i && grounded.contains(a))).collect();
    if let Some(d0) = defeated.first() {
        if defeated.iter().any(|d| class_of_node[*d] != class_of_node[*d0]) {
            return Err(Failure::new("C19/composite/defeated-arguments-split-over-classes", t.clone()));
        }
    }
    rec.class(&format!("composite-n-{:03}+", (lay.n / 25) * 25));
    if classes.iter().any(|c| c.len() > 4) {
        rec.class("composite-class-with-more-than-4-members");
    }
    if rec.nontrivial(&serde_json::to_string(case).unwrap_or_default()) {
        rec.sample(|| json!({"composite_framework_arguments": lay.n, "classes": classes.len(), "largest_class": classes.iter().map(|c| c.len()).max()}));
    }
    Ok(())
}

impl Equiv {
    fn run_generic<T: LabelType>(&self, af: &AAFramework<T>, labels: &[T], case: &GraphCase, rec: &mut Rec) -> CheckResult {
        let n = case.g.n;
        let g = G::new(n, &case.g.att_usize());
        let fams = Fams::new(&g);
        rec.eval();
        let pos = |l: &T| labels.iter().position(|x| x == l);
        // classes through the reduced framework
        let r = guard(|| {
            let ec = EquivalencyComputer::new(af);
            let red = ec.reduced_af();
            let mut classes: Vec<Vec<T>> = vec![];
            for ra in red.argument_set().iter() {
                classes.push(ec.reduced_arg_to_init_args(ra).iter().map(|a| a.label().clone()).collect());
            }
            // init -> reduced -> class
            let mut back: Vec<(T, Vec<T>)> = vec![];
            for a in af.argument_set().iter() {
                let ra = ec.init_to_reduced_arg(a);
                back.push((a.label().clone(), ec.reduced_arg_to_init_args(ra).iter().map(|x| x.label().clone()).collect()));
            }
            (classes, back)
        });
        let (classes, back) = match r {
            Err(p) => return Err(Failure::new("C19/panic", p)),
            Ok(x) => x,
        };
        let mut masks: Vec<u32> = vec![];
        let mut seen = 0u32;
        for c in &classes {
            let mut m = 0u32;
            for l in c {
                let i = match pos(l) {
                    Some(i) => i,
                    None => return Err(Failure::new("C19/class-has-foreign-argument", format!("{}", l))),
                };
                if seen & (1 << i) != 0 {
                    return Err(Failure::new(
                        "C19/classes-overlap",
                        format!("argument index {} is in two classes: {:?}", i, classes.iter().map(|c| c.iter().map(|l| l.to_string()).collect::<Vec<_>>()).collect::<Vec<_>>()),
                    ));
                }
                seen |= 1 << i;
                m |= 1 << i;
            }
            if m == 0 {
                return Err(Failure::new("C19/empty-class", ""));
            }
            masks.push(m);
        }
        if seen != g.full() {
            return Err(Failure::new(
                "C19/classes-do-not-cover-all-arguments",
                format!("covered {:?} of {} arguments", mask_to_vec(seen), n),
            ));
        }
        for (l, cls) in &back {
            let i = pos(l).unwrap();
            let mut m = 0u32;
            for x in cls {
                m |= 1 << pos(x).unwrap_or(31);
            }
            if m & (1 << i) == 0 {
                return Err(Failure::new(
                    "C19/mappings-not-inverse",
                    format!("argument index {} maps to a reduced argument whose class {:?} does not contain it", i, mask_to_vec(m)),
                ));
            }
            if !masks.contains(&m) {
                return Err(Failure::new("C19/mappings-not-inverse", format!("class {:?} of argument {} is not a class of the reduced framework", mask_to_vec(m), i)));
            }
        }
        // indistinguishable by complete extensions
        for m in &masks {
            for e in &fams.co {
                let k = m & e;
                if k != 0 && k != *m {
                    return Err(Failure::new(
                        "C19/merged-arguments-distinguished-by-a-complete-extension",
                        format!("class {:?} complete extension {:?} (all complete: {:?})", mask_to_vec(*m), mask_to_vec(*e), masks_to_vecs(&fams.co)),
                    ));
                }
            }
        }
        let gr = fams.gr;
        let defeated = g.targets_of(gr);
        if gr != 0 && !masks.iter().any(|m| m & gr == gr) {
            return Err(Failure::new("C19/grounded-extension-split-over-classes", format!("grounded {:?} classes {:?}", mask_to_vec(gr), masks_to_vecs(&masks))));
        }
        if defeated != 0 && !masks.iter().any(|m| m & defeated == defeated) {
            return Err(Failure::new("C19/defeated-arguments-split-over-classes", format!("defeated {:?} classes {:?}", mask_to_vec(defeated), masks_to_vecs(&masks))));
        }
        let undecided = g.full() & !gr & !defeated;
        if masks.iter().any(|m| (m & undecided).count_ones() >= 2) {
            rec.class("merged-class-outside-grounded-and-defeated");
            if rec.nontrivial(&(case.g.canonical(), case.pres.kind())) {
                rec.sample_sized(case.g.att.len(), || json!({"case": case, "classes": masks_to_vecs(&masks), "complete_extensions": masks_to_vecs(&fams.co)}));
            }
        }
        if masks.len() < n {
            rec.class("some-merge");
        }
        Ok(())
    }
}

impl Prop for Equiv {
    type Case = EquivAny;
    fn id(&self) -> &'static str {
        "C19"
    }
    fn rule(&self) -> String {
        "Frameworks with compact ids (direct, ICCMA'23 reader keeping duplicate attack lines, Aspartix reader), <=10 (quick) / <=13 (thorough) arguments from the mixed-shape generator plus all digraphs on <=3 / <=4 arguments. Classes = reduced_arg_to_init_args of every argument of reduced_af(): they must partition the original arguments; init_to_reduced_arg(a)'s class contains a and is one of those classes; every class lies inside or outside each brute-force complete extension; the grounded extension and the set it defeats each lie within one class; no panic. One case in 300 is a union of 3-30 small components (20-200 arguments, interleaved ids, optionally joined into one connected component through a defeated hub): complete extensions are products, so every class must consist of arguments with the same signature (in all / in none / same component and same membership vector over that component's complete extensions); partition, inverse mappings, grounded and defeated classes as above. One case in 6000 gives one argument of a small core 250 to 131075 attackers (distinct, a prefix defeated; or one line repeated), judged exactly as well. Non-trivial: some class has >=2 members that are neither in the grounded extension nor defeated by it; distinct = (graph, presentation kind).".into()
    }
    fn assumptions(&self) -> Vec<String> {
        vec!["oracle.rs complete extensions".into(), "compact ids, as produced by the readers".into()]
    }
    fn strategy(&self, tier: Tier) -> BoxedStrategy<EquivAny> {
        let nmax = tier.pick(10, 13);
        let small = (gen::graph(nmax), gen::pres_compact(nmax)).prop_map(|(g, pres)| EquivAny::Small(GraphCase { g, pres }));
        let composite = crate::checks::statics::composite_strategy(tier).prop_map(EquivAny::Composite);
        // the reduction keeps per-argument tables (quadratic memory by design): tens of thousands of distinct
        // arguments are out of its reach, a line repeated 2^16 times is not
        let huge = crate::checks::hugefan::strategy().prop_map(|mut h| {
            if !h.repeated_line && h.k > 300 {
                // (the million-argument case of the fixed list has an acyclic core instead)
                h.repeated_line = true;
            }
            EquivAny::HugeFan(h)
        });
        let large = crate::checks::equiv_large::strategy().prop_map(EquivAny::Large);
        prop_oneof![6000 => small, 20 => composite, 2 => huge, 12 => large].boxed()
    }
    fn n_cases(&self, tier: Tier) -> u32 {
        tier.pick(2_000_000, 20_000_000)
    }
    fn enumerated(&self, tier: Tier) -> (Vec<EquivAny>, String) {
        let max = tier.pick(3, 4);
        let mut v = vec![];
        for n in 0..=max {
            for g in gen::all_graphs(n) {
                v.push(EquivAny::Small(GraphCase { g: g.clone(), pres: Pres::Direct { offset: 0, order_keys: vec![] } }));
                v.push(EquivAny::Small(GraphCase { g, pres: Pres::Iccma }));
            }
        }
        // one framework of 2^20 + 12 arguments that the grounded extension decides completely (the reduction
        // is linear there; with undecided arguments its tables are quadratic): counters and list lengths of 20 bits
        v.push(EquivAny::HugeFan(crate::checks::hugefan::HugeFan {
            core: gen::AbsGraph { n: 4, att: vec![(0, 1), (1, 2), (2, 3)] },
            target: 0,
            k: (1 << 20) + 7,
            defeated: 5,
            repeated_line: false,
            attacker_defeated: false,
            fillers: 0,
            split: 0,
        }));
        (v, format!("all digraphs on 0..={} arguments, direct and ICCMA presentations; one grounded-decided framework of 2^20+12 arguments", max))
    }
    fn run(&self, any: &EquivAny, rec: &mut Rec) -> CheckResult {
        let case = match any {
            EquivAny::Small(c) => c,
            EquivAny::Composite(cc) => {
                // the equivalence classes are derived per component: the gate argument (which joins the
                // components) belongs to the oracle of C01-C04/C07 only
                let mut cc = cc.clone();
                cc.gate.clear();
                return run_composite(&cc, rec);
            }
            EquivAny::HugeFan(h) => return crate::checks::hugefan::run_equiv(h, rec),
            EquivAny::Large(l) => return crate::checks::equiv_large::run(l, rec),
        };
        rec.class(&format!("pres-{}", case.pres.kind()));
        match build(case) {
            Built::U(af, labels) => self.run_generic(&af, &labels, case, rec),
            Built::S(af, labels) => self.run_generic(&af, &labels, case, rec),
            Built::C(af, labels) => self.run_generic(&af, &labels, case, rec),
        }
    }
}
