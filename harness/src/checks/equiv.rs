//! C19: arguments merged by the equivalence reduction are indistinguishable.

use crate::build::{build, Built};
use crate::engine::{CheckResult, Failure, Prop, Rec, Tier};
use crate::gen::{self, GraphCase, Pres};
use crate::oracle::{Fams, G};
use crate::util::{guard, mask_to_vec, masks_to_vecs};
use crustabri::aa::AAFramework;
use crustabri::utils::{EquivalencyComputer, LabelType};
use proptest::prelude::*;
use serde_json::json;

pub struct Equiv;

impl Equiv {
    fn run_generic<T: LabelType>(&self, af: &AAFramework<T>, labels: &[T], case: &GraphCase, rec: &mut Rec) -> CheckResult {
        let n = case.g.n;
        let g = G::new(n, &case.g.att_usize());
        let fams = Fams::new(&g);
        rec.eval();
        let pos = |l: &T| labels.iter().position(|x| x == l);
        // classes through the reduced framework
        let r = guard(|| {
            let ec = EquivalencyComputer::new(af);
            let red = ec.reduced_af();
            let mut classes: Vec<Vec<T>> = vec![];
            for ra in red.argument_set().iter() {
                classes.push(ec.reduced_arg_to_init_args(ra).iter().map(|a| a.label().clone()).collect());
            }
            // init -> reduced -> class
            let mut back: Vec<(T, Vec<T>)> = vec![];
            for a in af.argument_set().iter() {
                let ra = ec.init_to_reduced_arg(a);
                back.push((a.label().clone(), ec.reduced_arg_to_init_args(ra).iter().map(|x| x.label().clone()).collect()));
            }
            (classes, back)
        });
        let (classes, back) = match r {
            Err(p) => return Err(Failure::new("C19/panic", p)),
            Ok(x) => x,
        };
        let mut masks: Vec<u32> = vec![];
        let mut seen = 0u32;
        for c in &classes {
            let mut m = 0u32;
            for l in c {
                let i = match pos(l) {
                    Some(i) => i,
                    None => return Err(Failure::new("C19/class-has-foreign-argument", format!("{}", l))),
                };
                if seen & (1 << i) != 0 {
                    return Err(Failure::new(
                        "C19/classes-overlap",
                        format!("argument index {} is in two classes: {:?}", i, classes.iter().map(|c| c.iter().map(|l| l.to_string()).collect::<Vec<_>>()).collect::<Vec<_>>()),
                    ));
                }
                seen |= 1 << i;
                m |= 1 << i;
            }
            if m == 0 {
                return Err(Failure::new("C19/empty-class", ""));
            }
            masks.push(m);
        }
        if seen != g.full() {
            return Err(Failure::new(
                "C19/classes-do-not-cover-all-arguments",
                format!("covered {:?} of {} arguments", mask_to_vec(seen), n),
            ));
        }
        for (l, cls) in &back {
            let i = pos(l).unwrap();
            let mut m = 0u32;
            for x in cls {
                m |= 1 << pos(x).unwrap_or(31);
            }
            if m & (1 << i) == 0 {
                return Err(Failure::new(
                    "C19/mappings-not-inverse",
                    format!("argument index {} maps to a reduced argument whose class {:?} does not contain it", i, mask_to_vec(m)),
                ));
            }
            if !masks.contains(&m) {
                return Err(Failure::new("C19/mappings-not-inverse", format!("class {:?} of argument {} is not a class of the reduced framework", mask_to_vec(m), i)));
            }
        }
        // indistinguishable by complete extensions
        for m in &masks {
            for e in &fams.co {
                let k = m & e;
                if k != 0 && k != *m {
                    return Err(Failure::new(
                        "C19/merged-arguments-distinguished-by-a-complete-extension",
                        format!("class {:?} complete extension {:?} (all complete: {:?})", mask_to_vec(*m), mask_to_vec(*e), masks_to_vecs(&fams.co)),
                    ));
                }
            }
        }
        let gr = fams.gr;
        let defeated = g.targets_of(gr);
        if gr != 0 && !masks.iter().any(|m| m & gr == gr) {
            return Err(Failure::new("C19/grounded-extension-split-over-classes", format!("grounded {:?} classes {:?}", mask_to_vec(gr), masks_to_vecs(&masks))));
        }
        if defeated != 0 && !masks.iter().any(|m| m & defeated == defeated) {
            return Err(Failure::new("C19/defeated-arguments-split-over-classes", format!("defeated {:?} classes {:?}", mask_to_vec(defeated), masks_to_vecs(&masks))));
        }
        let undecided = g.full() & !gr & !defeated;
        if masks.iter().any(|m| (m & undecided).count_ones() >= 2) {
            rec.class("merged-class-outside-grounded-and-defeated");
            if rec.nontrivial(&(case.g.canonical(), case.pres.kind())) {
                rec.sample_sized(case.g.att.len(), || json!({"case": case, "classes": masks_to_vecs(&masks), "complete_extensions": masks_to_vecs(&fams.co)}));
            }
        }
        if masks.len() < n {
            rec.class("some-merge");
        }
        Ok(())
    }
}

impl Prop for Equiv {
    type Case = GraphCase;
    fn id(&self) -> &'static str {
        "C19"
    }
    fn rule(&self) -> String {
        "Frameworks with compact ids (direct, ICCMA'23 reader keeping duplicate attack lines, Aspartix reader), <=10 (quick) / <=13 (thorough) arguments from the mixed-shape generator plus all digraphs on <=3 / <=4 arguments. Classes = reduced_arg_to_init_args of every argument of reduced_af(): they must partition the original arguments; init_to_reduced_arg(a)'s class contains a and is one of those classes; every class lies inside or outside each brute-force complete extension; the grounded extension and the set it defeats each lie within one class; no panic. Non-trivial: some class has >=2 members that are neither in the grounded extension nor defeated by it; distinct = (graph, presentation kind).".into()
    }
    fn assumptions(&self) -> Vec<String> {
        vec!["oracle.rs complete extensions".into(), "compact ids, as produced by the readers".into()]
    }
    fn strategy(&self, tier: Tier) -> BoxedStrategy<GraphCase> {
        let nmax = tier.pick(10, 13);
        (gen::graph(nmax), gen::pres_compact(nmax)).prop_map(|(g, pres)| GraphCase { g, pres }).boxed()
    }
    fn n_cases(&self, tier: Tier) -> u32 {
        tier.pick(2_000_000, 20_000_000)
    }
    fn enumerated(&self, tier: Tier) -> (Vec<GraphCase>, String) {
        let max = tier.pick(3, 4);
        let mut v = vec![];
        for n in 0..=max {
            for g in gen::all_graphs(n) {
                v.push(GraphCase { g: g.clone(), pres: Pres::Direct { offset: 0, order_keys: vec![] } });
                v.push(GraphCase { g, pres: Pres::Iccma });
            }
        }
        (v, format!("all digraphs on 0..={} arguments, direct and ICCMA presentations", max))
    }
    fn run(&self, case: &GraphCase, rec: &mut Rec) -> CheckResult {
        rec.class(&format!("pres-{}", case.pres.kind()));
        match build(case) {
            Built::U(af, labels) => self.run_generic(&af, &labels, case, rec),
            Built::S(af, labels) => self.run_generic(&af, &labels, case, rec),
        }
    }
}
