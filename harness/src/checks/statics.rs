//! C01-C04: single-extension answers, credulous / skeptical statuses, certificates,
//! against the brute-force reference semantics.

use crate::build::{build, Built};
use crate::engine::{CheckResult, Failure, Prop, Rec, Tier};
use crate::gen::{self, AbsGraph, GraphCase, Pres};
#[allow(unused_imports)]
use proptest::prelude::*;
use crate::oracle::{self, Fams, Sem, ALL_SEMS, G};
use crate::queries::{encodings_for, kind_for, Enc, Ext, LabelMap, SolverObj, Q};
use crate::satwrap::{self, Shared};
use crate::util::{guard, mask_to_vec, masks_to_vecs};
use crustabri::aa::AAFramework;
use crustabri::utils::LabelType;
use proptest::prelude::*;
use serde_json::json;

#[derive(Clone, Copy, PartialEq, Eq, Debug)]
pub enum Which {
    C01,
    C02,
    C03,
    C04,
}

pub struct Statics {
    pub which: Which,
}

/// A small framework judged by the brute-force oracle, or (C04 only) a framework of 20-300
/// arguments whose certificates are judged by polynomial necessary conditions.
#[derive(Clone, Debug, serde::Serialize, serde::Deserialize)]
pub enum StaticCase {
    Small(GraphCase),
    Big(crate::checks::metamorphic::MetaCase),
    /// a disjoint union of many small components with interleaved ids: exact answers by composition
    Composite(crate::checks::composite::CompositeCase),
    /// in-degrees of 2^16 and beyond, grounded-based problems only (C01-C03)
    HugeFan(crate::checks::hugefan::HugeFan),
    /// one irregular graph of 14-24 arguments, judged by the backtracking reference (`Fams::new_medium`)
    Medium(GraphCase),
    /// one unattacked argument attacking all the others (arguments, attack lines in decreasing order)
    OutHub(u32, bool),
}

/// Irregular graphs of 14-24 arguments (sparse random, cycles with chords, clusters, fans), mostly one
/// connected component: beyond the brute force, within the backtracking reference.
pub fn medium_strategy() -> BoxedStrategy<GraphCase> {
    (gen::graph_single(24).prop_filter("14 arguments at least", |g| g.n >= 14), gen::pres(24)).prop_map(|(g, pres)| GraphCase { g, pres }).boxed()
}

pub fn composite_strategy(tier: Tier) -> BoxedStrategy<crate::checks::composite::CompositeCase> {
    use proptest::collection::vec;
    let kmax = tier.pick(30usize, 45usize);
    let comp = prop_oneof![
        4 => gen::graph_single(8),
        3 => gen::graph_single(4),
        1 => Just(AbsGraph { n: 1, att: vec![] }),
        1 => Just(AbsGraph { n: 1, att: vec![(0, 0)] }),
    ];
    (
        vec(comp, 3..=kmax),
        vec(any::<u16>(), 32),
        any::<bool>(),
        vec(any::<u16>(), 2..=4),
        any::<u8>(),
        vec(any::<u16>(), 0..=3),
        prop_oneof![1 => Just(0u8), 1 => 1u8..=255],
        prop_oneof![1 => Just(vec![]), 1 => vec((0u8..4, any::<u8>()), 1..=3)],
        prop_oneof![2 => Just(vec![]), 1 => vec((0u8..3, any::<u16>()), 1..=4)],
    )
        .prop_map(|(mut comps, order_keys, apx, queried, enc_pick, dup, mut hub, closed, gate)| {
            // with closed-form components (up to 60 arguments each) fewer small ones keep the total moderate
            if !closed.is_empty() {
                comps.truncate(12);
            }
            if !gate.is_empty() {
                // one connected component through the gate argument: few components, or the enumerations
                // over the product extensions are legitimately long
                hub = 0;
                comps.truncate(9);
            }
            crate::checks::composite::CompositeCase { comps, order_keys, apx, queried, enc_pick, dup, hub, closed, gate }
        })
        .boxed()
}

/// Gated composites in which the gate argument belongs to very few of the product extensions: the
/// enumerating procedures have to walk through (nearly) all of them before they can answer.
pub fn gated_rare_strategy(tier: Tier) -> BoxedStrategy<crate::checks::composite::CompositeCase> {
    use proptest::collection::vec;
    let gate = prop_oneof![3 => vec((1u8..3, any::<u16>()), 1), 2 => vec((1u8..3, any::<u16>()), 2..=4)];
    (composite_strategy(tier), gate, 4usize..=10).prop_map(|(mut c, gate, k)| {
        c.hub = 0;
        c.gate = gate;
        // a component whose extensions attack nothing (a lone argument) would keep the gate argument out for good
        c.comps.retain(|g| g.n >= 2);
        c.comps.truncate(k);
        c.closed.truncate(1);
        for cl in c.closed.iter_mut() {
            if cl.0 % 4 == 1 {
                cl.0 = 0;
            }
        }
        c
    })
    .boxed()
}

/// Gated composites made of 5-9 tiny components with several extensions each (mutual attacks, triangles,
/// 3-cycles): one connected component of 11-30 arguments with hundreds to thousands of extensions, i.e.
/// far more candidate sets per argument than random graphs have.
pub fn gated_dense_strategy(_tier: Tier) -> BoxedStrategy<crate::checks::composite::CompositeCase> {
    use proptest::collection::vec;
    let motif = prop_oneof![
        3 => Just(AbsGraph { n: 2, att: vec![(0, 1), (1, 0)] }),
        3 => Just(AbsGraph { n: 3, att: vec![(0, 1), (1, 2), (2, 0)] }),
        3 => Just(AbsGraph { n: 3, att: vec![(0, 1), (1, 0), (1, 2), (2, 1), (0, 2), (2, 0)] }),
        1 => Just(AbsGraph { n: 3, att: vec![(0, 1), (1, 0), (1, 2)] }),
        1 => Just(AbsGraph { n: 4, att: vec![(0, 1), (1, 0), (2, 3), (3, 2), (1, 2)] }),
        2 => gen::graph_single(3).prop_filter("two arguments at least", |g| g.n >= 2),
    ];
    // components without stable extension have several maximal ranges, not only several extensions:
    // half of the cases are made of those only
    let rangeful = prop_oneof![
        6 => Just(AbsGraph { n: 3, att: vec![(0, 1), (1, 2), (2, 0)] }),
        1 => Just(AbsGraph { n: 5, att: vec![(0, 1), (1, 2), (2, 3), (3, 4), (4, 0)] }),
        1 => Just(AbsGraph { n: 4, att: vec![(0, 1), (1, 2), (2, 0), (2, 3)] }),
        1 => Just(AbsGraph { n: 3, att: vec![(0, 1), (1, 2), (2, 0), (0, 2)] }),
        1 => Just(AbsGraph { n: 2, att: vec![(0, 0), (0, 1), (1, 0)] }),
    ];
    let comps = prop_oneof![1 => vec(motif, 5..=9), 1 => vec(rangeful, 4..=7)];
    let gate = prop_oneof![3 => vec((1u8..3, any::<u16>()), 1), 1 => vec((1u8..3, any::<u16>()), 2..=4)];
    (comps, gate, vec(any::<u16>(), 32), any::<bool>(), vec(any::<u16>(), 1..=3), any::<u8>(), vec(any::<u16>(), 0..=2))
        .prop_map(|(comps, gate, order_keys, apx, queried, enc_pick, dup)| crate::checks::composite::CompositeCase {
            comps,
            order_keys,
            apx,
            queried,
            enc_pick,
            dup,
            hub: 0,
            closed: vec![],
            gate,
        })
        .boxed()
}

/// Does the hybrid encoder take its auxiliary-variable branch for some argument?
pub fn hybrid_aux_branch(g: &AbsGraph, with_multiplicity: bool) -> bool {
    let n = g.n;
    let mut cnt = vec![vec![0usize; n]; n]; // cnt[to][from]
    for (a, b) in &g.att {
        cnt[*b as usize][*a as usize] += 1;
    }
    if !with_multiplicity {
        for row in cnt.iter_mut() {
            for c in row.iter_mut() {
                *c = (*c).min(1);
            }
        }
    }
    for x in 0..n {
        let mut prod = 1usize;
        let mut any = false;
        let mut empty = false;
        for b in 0..n {
            for _ in 0..cnt[x][b] {
                any = true;
                let d: usize = cnt[b].iter().sum();
                if d == 0 {
                    empty = true;
                }
                prod = prod.saturating_mul(d);
            }
        }
        if any && !empty && prod >= 32 {
            return true;
        }
    }
    false
}

/// Number of clauses the `exp` complete encoder generates (cartesian products of defender sets);
/// saturating. Frameworks above `EXP_LIMIT` are not fed to that encoder: its size is exponential by design.
pub fn exp_cost(g: &AbsGraph, with_multiplicity: bool) -> usize {
    let n = g.n;
    let mut cnt = vec![vec![0usize; n]; n]; // cnt[to][from]
    for (a, b) in &g.att {
        cnt[*b as usize][*a as usize] += 1;
    }
    if !with_multiplicity {
        for row in cnt.iter_mut() {
            for c in row.iter_mut() {
                *c = (*c).min(1);
            }
        }
    }
    let mut total = 0usize;
    for x in 0..n {
        let mut prod = 1usize;
        for b in 0..n {
            for _ in 0..cnt[x][b] {
                let d: usize = cnt[b].iter().sum();
                prod = prod.saturating_mul(d.max(1));
            }
        }
        total = total.saturating_add(prod);
    }
    total
}

pub const EXP_LIMIT: usize = 30_000;

pub fn enc_feasible(enc: Enc, g: &AbsGraph, pres: &Pres) -> bool {
    if matches!(pres, Pres::IccmaRepeated { .. }) && !g.att.is_empty() {
        // a line repeated dozens to thousands of times: the cartesian product explodes by design
        return enc != Enc::ExpCo;
    }
    enc != Enc::ExpCo || exp_cost(g, matches!(pres, Pres::Iccma)) <= EXP_LIMIT
}

struct Ctx<'a> {
    case: &'a GraphCase,
    g: G,
    fams: Fams,
    n_components: usize,
    sparse: bool,
    self_att: bool,
    hybrid_aux: bool,
}

fn fresh<'a, T: LabelType>(af: &'a AAFramework<T>, q: Q, sem: Sem, enc: Enc) -> SolverObj<'a, T> {
    let shared = Shared::new(satwrap::DEFAULT_CAP);
    SolverObj::new(af, kind_for(q, sem), enc, satwrap::factory(&shared))
}

impl Statics {
    fn nmax(&self, tier: Tier) -> usize {
        tier.pick(9, 13)
    }

    fn run_generic<T: LabelType>(&self, af: &AAFramework<T>, labels: &[T], cx: &Ctx, rec: &mut Rec) -> CheckResult {
        let lm = LabelMap::new(af, labels);
        match self.which {
            Which::C01 => self.c01(af, &lm, cx, rec),
            Which::C02 => self.acc(af, labels, &lm, cx, rec, Q::DC),
            Which::C03 => self.acc(af, labels, &lm, cx, rec, Q::DS),
            Which::C04 => self.c04(af, labels, &lm, cx, rec),
        }
    }

    fn c01<T: LabelType>(&self, af: &AAFramework<T>, lm: &LabelMap<T>, cx: &Ctx, rec: &mut Rec) -> CheckResult {
        // the framework's own grounded-extension accessor
        {
            rec.eval();
            let r = guard(|| {
                af.grounded_extension()
                    .into_iter()
                    .map(|a| crate::queries::Member { id: a.id(), label: a.label().clone() })
                    .collect::<Ext<T>>()
            });
            let sig = "C01/AAFramework::grounded_extension";
            match r {
                Err(p) => return Err(Failure::new(format!("{}/panic", sig), p)),
                Ok(e) => {
                    let m = lm.mask(&e).map_err(|m| Failure::new(format!("{}/foreign-or-duplicate-member", sig), m))?;
                    if m != cx.fams.gr {
                        return Err(Failure::new(
                            format!("{}/wrong-set", sig),
                            format!("got {:?}, grounded extension is {:?}", mask_to_vec(m), mask_to_vec(cx.fams.gr)),
                        ));
                    }
                }
            }
        }
        for sem in ALL_SEMS {
            // SE-CO is answered by the grounded extension, which is a complete extension.
            let exts = cx.fams.exts(sem);
            for enc in encodings_for(Q::SE, sem) {
                if !enc_feasible(enc, &cx.case.g, &cx.case.pres) {
                    rec.class("exp-encoder-skipped-exponential-size");
                    continue;
                }
                rec.eval();
                let sig = format!("C01/SE-{}/{}", sem.name(), enc.name());
                let r = guard(|| fresh(af, Q::SE, sem, enc).se());
                let nt = exts.len() >= 2
                    || exts.is_empty()
                    || cx.n_components >= 2
                    || cx.self_att
                    || cx.sparse
                    || (enc == Enc::Hybrid && cx.hybrid_aux);
                if nt {
                    let new = rec.nontrivial(&(cx.case.g.canonical(), cx.case.pres.kind(), sem, enc));
                    if new {
                        rec.sample_sized(cx.case.g.att.len() + cx.g.n, || {
                            json!({"case": cx.case, "problem": format!("SE-{}", sem.name()), "encoding": enc.name(),
                                   "reference_extensions": masks_to_vecs(&exts)})
                        });
                    }
                }
                match r {
                    Err(p) => return Err(Failure::new(format!("{}/panic", sig), p)),
                    Ok(None) => {
                        if !exts.is_empty() {
                            return Err(Failure::new(
                                format!("{}/no-extension-reported-but-one-exists", sig),
                                format!("reference extensions {:?}", masks_to_vecs(&exts)),
                            ));
                        }
                        if sem != Sem::ST {
                            return Err(Failure::new(format!("{}/oracle", sig), "non-ST semantics without extension"));
                        }
                        rec.class("se-none");
                    }
                    Ok(Some(e)) => {
                        let m = lm
                            .mask(&e)
                            .map_err(|m| Failure::new(format!("{}/foreign-or-duplicate-member", sig), m))?;
                        if !exts.contains(&m) {
                            return Err(Failure::new(
                                format!("{}/not-an-extension", sig),
                                format!("returned {:?}, reference extensions {:?}", mask_to_vec(m), masks_to_vecs(&exts)),
                            ));
                        }
                        if sem == Sem::CO && m != cx.fams.gr {
                            // allowed by the property (any complete extension), but recorded
                            rec.class("se-co-not-grounded");
                        }
                    }
                }
            }
        }
        Ok(())
    }

    fn acc<T: LabelType>(
        &self,
        af: &AAFramework<T>,
        labels: &[T],
        lm: &LabelMap<T>,
        cx: &Ctx,
        rec: &mut Rec,
        q: Q,
    ) -> CheckResult {
        let id = if q == Q::DC { "C02" } else { "C03" };
        let n_pr_like = |s: Sem| cx.fams.exts(s).len();
        for sem in ALL_SEMS {
            let exts = cx.fams.exts(sem);
            for enc in encodings_for(q, sem) {
                if !enc_feasible(enc, &cx.case.g, &cx.case.pres) {
                    rec.class("exp-encoder-skipped-exponential-size");
                    continue;
                }
                for a in 0..cx.g.n {
                    let bit = 1u32 << a;
                    let expected = if q == Q::DC { oracle::dc(&exts, bit) } else { oracle::ds(&exts, bit) };
                    let cred = oracle::dc(&exts, bit);
                    let skep = oracle::ds(&exts, bit);
                    let other_comp_no_stable = sem == Sem::ST && exts.is_empty() && cx.n_components >= 2;
                    // PR shortcut: an admissible set attacks the argument
                    let pr_shortcut = sem == Sem::PR
                        && q == Q::DS
                        && cx.fams.adm.iter().any(|s| cx.g.targets_of(*s) & bit != 0);
                    let nt = (cred && !skep)
                        || (matches!(sem, Sem::PR | Sem::SST | Sem::STG) && n_pr_like(sem) >= 2)
                        || other_comp_no_stable
                        || pr_shortcut;
                    for cert in [false, true] {
                        rec.eval();
                        let sig = format!(
                            "{}/{}-{}/{}/{}",
                            id,
                            q.name(),
                            sem.name(),
                            enc.name(),
                            if cert { "with-certificate" } else { "plain" }
                        );
                        let r = guard(|| {
                            let mut s = fresh(af, q, sem, enc);
                            if q == Q::DC {
                                s.dc(&[&labels[a]], cert).0
                            } else {
                                s.ds(&[&labels[a]], cert).0
                            }
                        });
                        if nt {
                            let new = rec.nontrivial(&(cx.case.g.canonical(), cx.case.pres.kind(), sem, enc, a, cert));
                            if new {
                                rec.sample_sized(cx.case.g.att.len() + cx.g.n, || {
                                    json!({"case": cx.case, "problem": format!("{}-{}", q.name(), sem.name()),
                                           "encoding": enc.name(), "argument_index": a, "with_certificate": cert,
                                           "expected": expected})
                                });
                            }
                        }
                        match r {
                            Err(p) => return Err(Failure::new(format!("{}/panic", sig), p)),
                            Ok(got) => {
                                if got != expected {
                                    return Err(Failure::new(
                                        format!("{}/got-{}-expected-{}", sig, yn(got), yn(expected)),
                                        format!(
                                            "argument index {} (label {}): reference extensions {:?}",
                                            a,
                                            labels[a],
                                            masks_to_vecs(&exts)
                                        ),
                                    ));
                                }
                            }
                        }
                    }
                }
            }
        }
        // explicit clauses of the properties
        if cx.fams.st.is_empty() {
            rec.class("no-stable-extension");
        }
        Ok(())
    }

    fn c04<T: LabelType>(
        &self,
        af: &AAFramework<T>,
        labels: &[T],
        lm: &LabelMap<T>,
        cx: &Ctx,
        rec: &mut Rec,
    ) -> CheckResult {
        let multi_ext_comps = cx
            .g
            .components()
            .iter()
            .filter(|c| {
                let (sub, _) = cx.g.induced(**c);
                Fams::auto(&sub).map_or(false, |f| f.co.len() >= 2)
            })
            .count();
        for q in [Q::DC, Q::DS] {
            for sem in ALL_SEMS {
                let exts = cx.fams.exts(sem);
                // a DC-PR witness only has to be complete
                let witness_family = if q == Q::DC && sem == Sem::PR { cx.fams.co.clone() } else { exts.clone() };
                for enc in encodings_for(q, sem) {
                    if !enc_feasible(enc, &cx.case.g, &cx.case.pres) {
                        rec.class("exp-encoder-skipped-exponential-size");
                        continue;
                    }
                    for a in 0..cx.g.n {
                        rec.eval();
                        let bit = 1u32 << a;
                        let sig = format!("C04/{}-{}/{}", q.name(), sem.name(), enc.name());
                        let r = guard(|| {
                            let mut s = fresh(af, q, sem, enc);
                            if q == Q::DC {
                                s.dc(&[&labels[a]], true)
                            } else {
                                s.ds(&[&labels[a]], true)
                            }
                        });
                        let (status, cert) = match r {
                            Err(p) => return Err(Failure::new(format!("{}/panic", sig), p)),
                            Ok(x) => x,
                        };
                        let promised = if q == Q::DC { status } else { !status };
                        match (promised, cert) {
                            (false, None) => {}
                            (false, Some(c)) => {
                                return Err(Failure::new(
                                    format!("{}/certificate-with-{}-answer", sig, yn(status)),
                                    format!("argument index {}: unexpected certificate of {} members", a, c.len()),
                                ))
                            }
                            (true, None) => {
                                return Err(Failure::new(
                                    format!("{}/missing-certificate-with-{}-answer", sig, yn(status)),
                                    format!("argument index {}", a),
                                ))
                            }
                            (true, Some(c)) => {
                                let m = lm
                                    .mask(&c)
                                    .map_err(|m| Failure::new(format!("{}/foreign-or-duplicate-member", sig), m))?;
                                if !witness_family.contains(&m) {
                                    return Err(Failure::new(
                                        format!("{}/certificate-not-an-extension", sig),
                                        format!(
                                            "argument index {}: certificate {:?}; reference {:?}",
                                            a,
                                            mask_to_vec(m),
                                            masks_to_vecs(&witness_family)
                                        ),
                                    ));
                                }
                                let contains = m & bit != 0;
                                if (q == Q::DC) != contains {
                                    return Err(Failure::new(
                                        format!("{}/certificate-membership-wrong", sig),
                                        format!("argument index {}: certificate {:?}", a, mask_to_vec(m)),
                                    ));
                                }
                                rec.class("certificate-checked");
                                if cx.n_components >= 2 && multi_ext_comps >= 2 {
                                    let new =
                                        rec.nontrivial(&(cx.case.g.canonical(), cx.case.pres.kind(), q, sem, enc, a));
                                    if new {
                                        rec.sample_sized(cx.case.g.att.len() + cx.g.n, || {
                                            json!({"case": cx.case, "problem": format!("{}-{}", q.name(), sem.name()),
                                                   "encoding": enc.name(), "argument_index": a,
                                                   "status": status, "certificate": mask_to_vec(m)})
                                        });
                                    }
                                }
                            }
                        }
                    }
                }
            }
        }
        Ok(())
    }
}

fn yn(b: bool) -> &'static str {
    if b {
        "YES"
    } else {
        "NO"
    }
}

impl Prop for Statics {
    type Case = StaticCase;

    fn id(&self) -> &'static str {
        match self.which {
            Which::C01 => "C01",
            Which::C02 => "C02",
            Which::C03 => "C03",
            Which::C04 => "C04",
        }
    }

    fn rule(&self) -> String {
        let common = "Frameworks are generated by construction from mixed shapes (random digraphs of six density classes, unions of 2-4 components, cycles with chords, symmetric clusters, fan-in shapes around the hybrid threshold, planted self-attackers, isolated arguments, repeated attack declarations) and presented through ArgumentSet::new_with_labels, the ICCMA'23 reader, the Aspartix reader, or an update history leaving sparse ids; every problem is run with every selectable encoding on a fresh solver object and compared with brute-force reference semantics. About 1% of the cases (0.25% for C01) are disjoint unions of 3-30 (thorough: 45) small components, 20-200 arguments, declared in an interleaved order so that the components' ids are mixed, in ICCMA'23 or Aspartix text with some repeated attack lines: the reference answer is exact by composition (an extension of the union is a product of extensions of the components, for all seven semantics) although the framework is far beyond brute force; in half of them two more arguments u -> h are added and h attacks one argument of every component, which makes ONE connected component of 20-200 arguments whose answers (for all semantics but STG, which is skipped there) are still those of the union because h is defeated by the grounded extension; in half of them 1-3 components with closed-form extensions are added (directed even or odd cycles, chains, symmetric cliques of up to 60 arguments: single components far beyond brute force whose extension families are known). One case in 400 (C01: 1600) gives one argument of a small core 250 to 131075 attackers (distinct unattacked arguments of which a prefix is defeated, or one attack line repeated that often) and asks the grounded-based problems, judged by a linear-time reference. ";
        match self.which {
            Which::C01 => format!("{}A case (labelled attack multiset, presentation kind, semantics, encoder) is non-trivial when the framework has >=2 extensions under the semantics, or no stable extension, or >=2 components, or a self-attacker, or sparse ids, or the hybrid encoder takes its auxiliary branch; distinct = distinct such tuples (labelled graphs, not up to isomorphism).", common),
            Which::C02 | Which::C03 => format!("{}A case (graph, presentation kind, semantics, encoder, argument, certificate flag) is non-trivial when the argument is credulously but not skeptically accepted, or the semantics is PR/SST/STG with >=2 extensions, or ST has no extension in a framework of >=2 components, or (DS-PR) an admissible set attacks the argument; distinct = distinct tuples.", common),
            Which::C04 => format!("{}Only the _with_certificate entry points. About 1.6% of the cases are frameworks of 20-300 arguments (generator of C11) whose certificates are judged by polynomial necessary conditions (own arguments once each, present exactly when promised, contains/omits the argument, conflict-free, complete for CO/PR/SST/ID, stable for ST). A case (graph, presentation kind, problem, encoder, argument) is non-trivial when a certificate was returned and checked and the framework has >=2 components of which >=2 have >=2 complete extensions (the certificate must be completed on untouched components); distinct = distinct tuples.", common),
        }
    }

    fn assumptions(&self) -> Vec<String> {
        vec![
            "the brute-force reference semantics (oracle.rs), self-tested by textbook identities on all digraphs with <=3 arguments at start-up".into(),
            "exact checks are limited to <=9 (quick) / <=13 (thorough) arguments".into(),
            "CaDiCaL terminates and is correct".into(),
        ]
    }

    fn strategy(&self, tier: Tier) -> BoxedStrategy<StaticCase> {
        let nmax = self.nmax(tier);
        match self.which {
            Which::C04 => {
                let small = (prop_oneof![3 => gen::graph_multi(nmax), 2 => gen::graph(nmax)], gen::pres(nmax))
                    .prop_map(|(g, pres)| StaticCase::Small(GraphCase { g, pres }));
                let big = crate::checks::metamorphic::meta_strategy(tier).prop_map(StaticCase::Big);
                let composite = composite_strategy(tier).prop_map(StaticCase::Composite);
                let gated = gated_rare_strategy(tier).prop_map(StaticCase::Composite);
                let dense = gated_dense_strategy(tier).prop_map(StaticCase::Composite);
                let medium = medium_strategy().prop_map(StaticCase::Medium);
                prop_oneof![120 => small, 2 => big, 1 => composite, 1 => gated, 2 => dense, 2 => medium].boxed()
            }
            Which::C01 => prop_oneof![
                1600 => gen::graph_case(nmax).prop_map(StaticCase::Small),
                4 => composite_strategy(tier).prop_map(StaticCase::Composite),
                4 => gated_rare_strategy(tier).prop_map(StaticCase::Composite),
                8 => gated_dense_strategy(tier).prop_map(StaticCase::Composite),
                1 => crate::checks::hugefan::strategy().prop_map(StaticCase::HugeFan),
                12 => medium_strategy().prop_map(StaticCase::Medium),
            ]
            .boxed(),
            _ => prop_oneof![
                400 => gen::graph_case(nmax).prop_map(StaticCase::Small),
                4 => composite_strategy(tier).prop_map(StaticCase::Composite),
                4 => gated_rare_strategy(tier).prop_map(StaticCase::Composite),
                8 => gated_dense_strategy(tier).prop_map(StaticCase::Composite),
                1 => crate::checks::hugefan::strategy().prop_map(StaticCase::HugeFan),
                5 => medium_strategy().prop_map(StaticCase::Medium),
            ]
            .boxed(),
        }
    }

    fn n_cases(&self, tier: Tier) -> u32 {
        match self.which {
            Which::C01 => tier.pick(80_000, 2_000_000),
            _ => tier.pick(16_000, 400_000),
        }
    }

    fn enumerated(&self, tier: Tier) -> (Vec<StaticCase>, String) {
        // SE problems are cheap enough to cover all 65536 digraphs on 4 arguments in the quick tier too
        let max = if self.which == Which::C01 { 4 } else { tier.pick(3, 4) };
        let mut v = vec![];
        for n in 0..=max {
            for g in gen::all_graphs(n) {
                v.push(StaticCase::Small(GraphCase { g, pres: Pres::Direct { offset: 0, order_keys: vec![] } }));
            }
        }
        if self.which != Which::C04 {
            // grounded reasoning over 2^20 + 12 arguments (counters and queues of 20 bits)
            v.push(StaticCase::HugeFan(crate::checks::hugefan::HugeFan {
                core: AbsGraph { n: 4, att: vec![(0, 1), (1, 2), (2, 3)] },
                target: 0,
                k: (1 << 20) + 7,
                defeated: 5,
                repeated_line: false,
                attacker_defeated: false,
                fillers: 0,
                split: 0,
            }));
        }
        if self.which != Which::C04 {
            // one component of 2^20 + 3 arguments with an out-degree of 2^20 + 2, through the SAT-based solvers
            v.push(StaticCase::OutHub((1 << 20) + 3, self.which == Which::C03));
        }
        (v, format!("all digraphs (self-attacks included) on 0..={} labelled arguments, direct presentation; one fan of 2^20+7 attackers (grounded problems); one out-degree hub of 2^20+3 arguments (SAT-based solvers)", max))
    }

    fn run(&self, scase: &StaticCase, rec: &mut Rec) -> CheckResult {
        let case = match scase {
            StaticCase::Small(c) | StaticCase::Medium(c) => c,
            StaticCase::Big(mc) => {
                let (n, checked) = crate::checks::metamorphic::certificates_on_big(mc)?;
                if checked > 0 {
                    rec.evals(checked as u64);
                    rec.count("big-framework-certificates-checked", checked as u64);
                    rec.class(&format!("big-framework-n-{:03}+", (n / 50) * 50));
                    if rec.nontrivial(&serde_json::to_string(mc).unwrap()) {
                        rec.sample(|| json!({"big_framework_arguments": n, "certificates_checked_by_necessary_conditions": checked}));
                    }
                }
                return Ok(());
            }
            StaticCase::Composite(cc) => return crate::checks::composite::run(self.which, cc, rec),
            StaticCase::HugeFan(h) => return crate::checks::hugefan::run_grounded(self.id(), h, rec),
            StaticCase::OutHub(n, decreasing) => {
                if self.which == Which::C04 {
                    return Ok(());
                }
                return crate::checks::hugefan::run_out_hub(self.id(), *n, *decreasing, rec);
            }
        };
        let g = G::new(case.g.n, &case.g.att_usize());
        let fams = if g.n > 13 {
            match Fams::new_medium(&g) {
                Some(f) => {
                    rec.class("medium-size-graph-judged-by-backtracking-reference");
                    f
                }
                None => {
                    rec.class("medium-size-graph-skipped-too-many-extensions");
                    return Ok(());
                }
            }
        } else {
            Fams::new(&g)
        };
        let cx = Ctx {
            case,
            n_components: g.components().len(),
            sparse: matches!(case.pres, Pres::Sparse { .. }),

            self_att: g.has_self_attack(),
            hybrid_aux: hybrid_aux_branch(&case.g, matches!(case.pres, Pres::Iccma)) || matches!(case.pres, Pres::IccmaRepeated { .. }),
            g,
            fams,
        };
        rec.class(&format!("pres-{}", case.pres.kind()));
        if cx.n_components >= 2 {
            rec.class("multi-component");
        }
        if cx.self_att {
            rec.class("self-attack");
        }
        if cx.hybrid_aux {
            rec.class("hybrid-aux-branch");
        }
        if case.g.has_duplicates() {
            rec.class("duplicate-attack-declarations");
        }
        if cx.fams.st.is_empty() {
            rec.class("no-stable-extension");
        }
        if cx.fams.pr.len() >= 2 {
            rec.class("several-preferred");
        }
        rec.class(&format!("n={:02}", cx.g.n));
        let (_scope, chosen) = satwrap::ChoiceScope::for_case(case);
        if chosen {
            rec.class("sat-backend-returns-chosen-models");
        }
        let built = build(case);
        match built {
            Built::U(af, labels) => self.run_generic(&af, &labels, &cx, rec),
            Built::S(af, labels) => self.run_generic(&af, &labels, &cx, rec),
            Built::C(af, labels) => self.run_generic(&af, &labels, &cx, rec),
        }
    }
}
