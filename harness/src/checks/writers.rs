//! C14: written frameworks and answers read back to the same objects.

use crate::build::apx_label;
use crate::checks::store::{store_op, StoreOp};
use crate::engine::{CheckResult, Failure, Prop, Rec, Tier};
use crate::gen::idx;
use crate::util::guard;
use crustabri::aa::{AAFramework, Argument, ArgumentSet};
use crustabri::io::{AspartixReader, AspartixWriter, Iccma23Writer, InstanceReader, ResponseWriter};
use proptest::collection::vec;
use proptest::prelude::*;
use serde::{Deserialize, Serialize};
use serde_json::json;
use std::collections::BTreeSet;

#[derive(Clone, Debug, Serialize, Deserialize)]
pub struct WriterCase {
    pub universe: u8,
    pub style: u8,
    pub initial: Vec<u8>,
    pub ops: Vec<StoreOp>,
    /// picks of live arguments forming the extension to write (duplicates dropped, order kept)
    pub ext_picks: Vec<u16>,
    /// usize labels for the ICCMA'23 writer: offsets making them non-contiguous
    pub usize_stride: u8,
}

/// Either a framework produced by a history, or a LARGE extension / framework (thousands of labels,
/// output beyond any plausible internal buffer size).
#[derive(Clone, Debug, Serialize, Deserialize)]
pub enum WriterAny {
    Hist(WriterCase),
    Big {
        n: u32,
        style: u8,
        stride: u16,
        take_every: u8,
        attacks: Vec<(u16, u16)>,
        #[serde(default)]
        sink: u8,
    },
}

pub struct Writers;

/// A sink that takes at most `max` bytes per `write` call (0 = everything), as `std::io::Write` allows
/// (sockets, windowed writers): a writer that ignores the count returned by `write` loses bytes here.
pub struct Trickle {
    pub data: Vec<u8>,
    pub max: usize,
}

impl Trickle {
    pub fn new(kind: u8) -> Trickle {
        Trickle { data: vec![], max: [0usize, 1, 7, 4096, 65_535, 3][kind as usize % 6] }
    }
}

impl std::io::Write for Trickle {
    fn write(&mut self, buf: &[u8]) -> std::io::Result<usize> {
        let k = if self.max == 0 { buf.len() } else { buf.len().min(self.max) };
        self.data.extend_from_slice(&buf[..k]);
        Ok(k)
    }
    fn flush(&mut self) -> std::io::Result<()> {
        Ok(())
    }
}

/// A sink that fails after `left` bytes (a closed pipe, a full disk).
pub struct FailingSink {
    pub left: usize,
}

impl std::io::Write for FailingSink {
    fn write(&mut self, buf: &[u8]) -> std::io::Result<usize> {
        if self.left == 0 {
            return Err(std::io::Error::new(std::io::ErrorKind::BrokenPipe, "sink closed"));
        }
        let k = buf.len().min(self.left);
        self.left -= k;
        Ok(k)
    }
    fn flush(&mut self) -> std::io::Result<()> {
        Ok(())
    }
}

/// Every writer call is first made on a sink that fails after `k` bytes; its outcome is ignored. Whatever those calls leave behind -
/// in the writer objects (unit structs), in thread-local or static buffers - must not show in later output.
fn poison_writers(k: usize) {
    let labels: Vec<String> = vec!["stale_a".into(), "stale_b".into(), "stale_c".into()];
    let set = ArgumentSet::new_with_labels(&labels);
    let args: Vec<&Argument<String>> = labels.iter().map(|l| set.get_argument(l).unwrap()).collect();
    let _ = ResponseWriter::<String>::write_single_extension(&AspartixWriter, &mut FailingSink { left: k }, &args);
    let ulabels: Vec<usize> = vec![777_001, 777_002, 777_003];
    let uset = ArgumentSet::new_with_labels(&ulabels);
    let uargs: Vec<&Argument<usize>> = ulabels.iter().map(|l| uset.get_argument(l).unwrap()).collect();
    let _ = ResponseWriter::<usize>::write_single_extension(&Iccma23Writer, &mut FailingSink { left: k }, &uargs);
    let mut af: AAFramework<String> = AAFramework::new_with_argument_set(ArgumentSet::new_with_labels(&labels));
    let _ = af.new_attack(&labels[0], &labels[1]);
    let _ = AspartixWriter.write_framework(&af, &mut FailingSink { left: k });
}

fn big_label(style: u8, i: usize) -> String {
    match style % 4 {
        0 => format!("a{}", i),
        1 => format!("_{}", i),
        2 => format!("Argument_with_a_rather_long_name_{}_x", i),
        _ => format!("n{}_{}", i % 7, i),
    }
}

#[allow(clippy::too_many_arguments)]
fn run_big(n: u32, style: u8, stride: u16, take_every: u8, attacks: &[(u16, u16)], sink: u8, rec: &mut Rec) -> CheckResult {
    let n = n as usize;
    rec.eval();
    // ---- extensions
    let mut labels: Vec<String> = (0..n).map(|i| big_label(style, i)).collect();
    if stride % 4 == 0 {
        // one case in four: two identifiers of 2^16 +- 40 bytes (a single piece larger than any block buffer)
        for i in [1usize, n / 2] {
            if i < n {
                // ... and, one time in three of these, of 2^20 + a few bytes
                let len = if stride % 12 == 0 { (1 << 20) + (stride as usize % 80) } else { 65_500 + (stride as usize % 80) };
                labels[i] = format!("giant_{}_{}", "g".repeat(len), i);
            }
        }
        rec.class("big-with-identifiers-of-2^16-bytes");
    }
    let set = ArgumentSet::new_with_labels(&labels);
    let step = take_every.max(1) as usize;
    let sel: Vec<usize> = (0..n).filter(|i| i % step == 0).collect();
    let args: Vec<&Argument<String>> = sel.iter().map(|i| set.get_argument(&labels[*i]).unwrap()).collect();
    let mut tb = Trickle::new(sink);
    ResponseWriter::<String>::write_single_extension(&AspartixWriter, &mut tb, &args).map_err(|e| Failure::new("C14/big/aspartix-extension/error", e.to_string()))?;
    let b = tb.data;
    let want = format!("[{}]\n", sel.iter().map(|i| labels[*i].clone()).collect::<Vec<_>>().join(","));
    if b != want.as_bytes() {
        let pos = b.iter().zip(want.as_bytes()).position(|(x, y)| x != y).unwrap_or(b.len().min(want.len()));
        return Err(Failure::new(
            "C14/big/aspartix-extension/bytes-differ",
            format!("{} labels, {} bytes expected, {} written; first difference at byte {}: ...{:?}...", sel.len(), want.len(), b.len(), pos, String::from_utf8_lossy(&b[pos.saturating_sub(20)..(pos + 20).min(b.len())])),
        ));
    }
    let ulab = |i: usize| i * stride.max(1) as usize + 1;
    let ulabels: Vec<usize> = (0..n).map(ulab).collect();
    let uset = ArgumentSet::new_with_labels(&ulabels);
    let uargs: Vec<&Argument<usize>> = sel.iter().map(|i| uset.get_argument(&ulab(*i)).unwrap()).collect();
    let mut tb = Trickle::new(sink);
    ResponseWriter::<usize>::write_single_extension(&Iccma23Writer, &mut tb, &uargs).map_err(|e| Failure::new("C14/big/iccma23-extension/error", e.to_string()))?;
    let b = tb.data;
    let mut want = String::from("w");
    for i in &sel {
        want.push(' ');
        want.push_str(&ulab(*i).to_string());
    }
    want.push('\n');
    if b != want.as_bytes() {
        let pos = b.iter().zip(want.as_bytes()).position(|(x, y)| x != y).unwrap_or(b.len().min(want.len()));
        return Err(Failure::new(
            "C14/big/iccma23-extension/bytes-differ",
            format!("{} labels, {} bytes expected, {} written; first difference at byte {}", sel.len(), want.len(), b.len(), pos),
        ));
    }
    // ---- a big framework through write_framework and back
    let mut af: AAFramework<String> = AAFramework::new_with_argument_set(ArgumentSet::new_with_labels(&labels));
    let mut model: BTreeSet<(usize, usize)> = BTreeSet::new();
    for (k, (x, y)) in attacks.iter().enumerate() {
        if n == 0 {
            break;
        }
        // spread the generated pairs over the whole framework
        let a = (idx(*x, n) + k * 37) % n;
        let c = (idx(*y, n) + k * 101) % n;
        af.new_attack(&labels[a], &labels[c]).unwrap();
        model.insert((a, c));
    }
    // remove every 5th argument so that tombstones exist
    let mut live: Vec<usize> = vec![];
    for i in 0..n {
        if i % 5 == 3 {
            af.remove_argument(&labels[i]).unwrap();
            model.retain(|(a, c)| *a != i && *c != i);
        } else {
            live.push(i);
        }
    }
    let mut tb = Trickle::new(sink);
    AspartixWriter.write_framework(&af, &mut tb).map_err(|e| Failure::new("C14/big/write_framework/error", e.to_string()))?;
    let text = String::from_utf8(tb.data).map_err(|_| Failure::new("C14/big/write_framework/not-utf8", ""))?;
    let (pl, pa) = parse_written(&text).map_err(|e| Failure::new("C14/big/write_framework/unexpected-text", e))?;
    let want_labels: Vec<String> = live.iter().map(|i| labels[*i].clone()).collect();
    if pl != want_labels {
        return Err(Failure::new("C14/big/write_framework/arguments-differ-from-model", format!("{} written, {} expected", pl.len(), want_labels.len())));
    }
    let pas: BTreeSet<(String, String)> = pa.iter().cloned().collect();
    let want_atts: BTreeSet<(String, String)> = model.iter().map(|(a, c)| (labels[*a].clone(), labels[*c].clone())).collect();
    if pas != want_atts || pa.len() != want_atts.len() {
        return Err(Failure::new("C14/big/write_framework/attacks-differ-from-model", format!("{} written ({} distinct), {} expected", pa.len(), pas.len(), want_atts.len())));
    }
    let back = crate::checks::readers::used_aspartix_reader(n % 2 == 0).read(&mut text.as_bytes()).map_err(|e| Failure::new("C14/big/read-back/rejected", e.to_string()))?;
    let bl: Vec<String> = back.argument_set().iter().map(|a| a.label().clone()).collect();
    let ba: BTreeSet<(String, String)> = back.iter_attacks().map(|t| (t.attacker().label().clone(), t.attacked().label().clone())).collect();
    if bl != want_labels || ba != want_atts {
        return Err(Failure::new("C14/big/read-back/differs", format!("{} arguments {} attacks read, {} / {} expected", bl.len(), ba.len(), want_labels.len(), want_atts.len())));
    }
    rec.class(&format!("sink-takes-at-most-{}-bytes-per-write", Trickle::new(sink).max));
    rec.class(&format!("big-extension-bytes-{}", if want.len() > 65536 { ">64KiB" } else if want.len() > 4096 { ">4KiB" } else { "small" }));
    if rec.nontrivial(&(n, style, stride, take_every, attacks.len())) {
        rec.sample(|| json!({"big": {"labels": n, "extension_members": sel.len(), "aspartix_extension_bytes": want.len(), "framework_text_bytes": text.len(), "attacks": want_atts.len()}}));
    }
    Ok(())
}

/// Independent tokenizer for the Aspartix framework text the writer is specified to produce.
fn parse_written(text: &str) -> Result<(Vec<String>, Vec<(String, String)>), String> {
    let mut args = vec![];
    let mut atts = vec![];
    if !text.is_empty() && !text.ends_with('\n') {
        return Err("missing final newline".into());
    }
    for line in text.lines() {
        if let Some(r) = line.strip_prefix("arg(") {
            let inner = r.strip_suffix(").").ok_or_else(|| format!("bad line {:?}", line))?;
            if !atts.is_empty() {
                return Err("arg after att".into());
            }
            args.push(inner.to_string());
        } else if let Some(r) = line.strip_prefix("att(") {
            let inner = r.strip_suffix(").").ok_or_else(|| format!("bad line {:?}", line))?;
            let (a, b) = inner.split_once(',').ok_or_else(|| format!("bad line {:?}", line))?;
            atts.push((a.to_string(), b.to_string()));
        } else {
            return Err(format!("unexpected line {:?}", line));
        }
    }
    Ok((args, atts))
}

impl Prop for Writers {
    type Case = WriterAny;
    fn id(&self) -> &'static str {
        "C14"
    }
    fn rule(&self) -> String {
        "A framework over identifier labels (four identifier styles incl. leading underscore, names 'arg'/'att') is produced by an update history of 0-60 (quick) / 0-200 (thorough) operations (so removed arguments and attacks leave tombstones), written with AspartixWriter::write_framework, checked byte-wise by an independent tokenizer against the set model (labels in creation order, attack set, nothing else) and read back with AspartixReader (same labels in the same order, same attacks). A generated ordered selection of its arguments (possibly empty) is written by AspartixWriter and, over usize labels with a generated stride, by Iccma23Writer; the bytes must be exactly '[' labels joined by ',' ']\\n' resp. 'w' (' ' label)* '\\n'; statuses exactly YES\\n / NO\\n; write_no_extension exactly NO\\n. The sink is a plain byte vector or one that takes only 1, 3, 7, 4096 or 65535 bytes per write call (short writes are legal for std::io::Write). One case in 4000 is LARGE: 0-30000 (thorough: 120000) labels of four styles, every 1st-3rd of them written as an extension by both writers (output from a few bytes to over 1 MiB, compared byte for byte), and a framework of that many arguments with up to 400 attacks spread over it and every fifth argument removed, written, tokenized, and read back. Non-trivial: the history removed >=1 argument and >=1 attack and the extension has >=2 members; distinct = case.".into()
    }
    fn assumptions(&self) -> Vec<String> {
        vec!["labels are valid Aspartix identifiers, as the property states".into()]
    }
    fn strategy(&self, tier: Tier) -> BoxedStrategy<WriterAny> {
        let nbig = tier.pick(30_000u32, 120_000u32);
        let big = (prop_oneof![3 => 0u32..200, 2 => 200u32..5_000, 1 => 5_000u32..nbig], 0u8..4, 1u16..2000, 1u8..4, vec((any::<u16>(), any::<u16>()), 0..=400), 0u8..6)
            .prop_map(|(n, style, stride, take_every, attacks, sink)| WriterAny::Big { n, style, stride, take_every, attacks, sink });
        prop_oneof![4000 => self.hist_strategy(tier).prop_map(WriterAny::Hist), 1 => big].boxed()
    }
    fn n_cases(&self, tier: Tier) -> u32 {
        tier.pick(2_000_000, 20_000_000)
    }
    fn run(&self, case: &WriterAny, rec: &mut Rec) -> CheckResult {
        match case {
            WriterAny::Hist(c) => self.run_hist(c, rec),
            WriterAny::Big { n, style, stride, take_every, attacks, sink } => run_big(*n, *style, *stride, *take_every, attacks, *sink, rec),
        }
    }
}

impl Writers {
    fn hist_strategy(&self, tier: Tier) -> BoxedStrategy<WriterCase> {
        let maxlen = tier.pick(60usize, 200usize);
        (3u8..=8, prop_oneof![10 => 0u8..4, 1 => Just(4u8)], 1u8..5)
            .prop_flat_map(move |(universe, style, usize_stride)| {
                (vec(0..universe, 0..=6), vec(store_op(universe), 0..=maxlen), vec(any::<u16>(), 0..=6)).prop_map(
                    move |(initial, ops, ext_picks)| WriterCase { universe, style, initial, ops, ext_picks, usize_stride },
                )
            })
            .boxed()
    }
    fn run_hist(&self, case: &WriterCase, rec: &mut Rec) -> CheckResult {
        if case.usize_stride % 2 == 0 {
            // half of the cases: failed writes precede the checked ones
            let k = (case.ext_picks.first().copied().unwrap_or(0) % 24) as usize;
            // what such a call returns (or whether it panics) is not the property's subject: only what the
            // later, successful calls emit is judged
            let _ = guard(|| poison_writers(k));
            rec.class("after-failed-writes-on-a-closing-sink");
        }
        let lab = |l: u8| apx_label(case.style, l as usize);
        // model: creation-ordered live labels and attack set
        let mut order: Vec<u8> = vec![];
        let mut atts: BTreeSet<(u8, u8)> = BTreeSet::new();
        let init: Vec<String> = case.initial.iter().map(|l| lab(*l)).collect();
        let mut af: AAFramework<String> = AAFramework::new_with_argument_set(ArgumentSet::new_with_labels(&init));
        for l in &case.initial {
            if !order.contains(l) {
                order.push(*l);
            }
        }
        let (mut removed_args, mut removed_atts) = (0, 0);
        for op in &case.ops {
            match op {
                StoreOp::NewArg(l) => {
                    af.new_argument(lab(*l));
                    if !order.contains(l) {
                        order.push(*l);
                    }
                }
                StoreOp::RemArg(l) => {
                    if af.remove_argument(&lab(*l)).is_ok() {
                        order.retain(|x| x != l);
                        let before = atts.len();
                        atts.retain(|(a, b)| a != l && b != l);
                        removed_atts += before - atts.len();
                        removed_args += 1;
                    }
                }
                StoreOp::NewAtt(a, b) => {
                    if af.new_attack(&lab(*a), &lab(*b)).is_ok() {
                        atts.insert((*a, *b));
                    }
                }
                StoreOp::RemAtt(a, b) => {
                    if af.remove_attack(&lab(*a), &lab(*b)).is_ok() {
                        atts.remove(&(*a, *b));
                        removed_atts += 1;
                    }
                }
            }
        }
        rec.eval();
        let want_labels: Vec<String> = order.iter().map(|l| lab(*l)).collect();
        let want_atts: BTreeSet<(String, String)> = atts.iter().map(|(a, b)| (lab(*a), lab(*b))).collect();
        // 1. framework text
        // the sink takes everything, or only 1 / 3 / 7 bytes per write call (legal for std::io::Write)
        let mut tb = Trickle::new(case.style.wrapping_add(case.usize_stride) % 6);
        guard(|| AspartixWriter.write_framework(&af, &mut tb))
            .map_err(|p| Failure::new("C14/write_framework/panic", p))?
            .map_err(|e| Failure::new("C14/write_framework/error", e.to_string()))?;
        let text = String::from_utf8(tb.data).map_err(|_| Failure::new("C14/write_framework/not-utf8", ""))?;
        let (pl, pa) = parse_written(&text).map_err(|e| Failure::new("C14/write_framework/unexpected-text", format!("{} in {:?}", e, text)))?;
        if pl != want_labels {
            return Err(Failure::new("C14/write_framework/arguments-differ-from-model", format!("written {:?} model {:?}", pl, want_labels)));
        }
        let pas: BTreeSet<(String, String)> = pa.iter().cloned().collect();
        if pas != want_atts || pa.len() != want_atts.len() {
            return Err(Failure::new(
                "C14/write_framework/attacks-differ-from-model",
                format!("written {:?} model {:?}", pa, want_atts),
            ));
        }
        // 2. read back
        let back = guard(|| crate::checks::readers::used_aspartix_reader(case.usize_stride % 2 == 1).read(&mut text.as_bytes()))
            .map_err(|p| Failure::new("C14/read-back/panic", p))?
            .map_err(|e| Failure::new("C14/read-back/rejected", format!("{} for text {:?}", e, text)))?;
        let bl: Vec<String> = back.argument_set().iter().map(|a| a.label().clone()).collect();
        let ba: BTreeSet<(String, String)> =
            back.iter_attacks().map(|t| (t.attacker().label().clone(), t.attacked().label().clone())).collect();
        if bl != want_labels {
            return Err(Failure::new("C14/read-back/arguments-differ", format!("read {:?} model {:?}", bl, want_labels)));
        }
        if ba != want_atts || back.n_attacks() != want_atts.len() {
            return Err(Failure::new("C14/read-back/attacks-differ", format!("read {:?} model {:?}", ba, want_atts)));
        }
        // 3. extensions
        let mut sel: Vec<u8> = vec![];
        for p in &case.ext_picks {
            if !order.is_empty() {
                let l = order[idx(*p, order.len())];
                if !sel.contains(&l) {
                    sel.push(l);
                }
            }
        }
        {
            rec.eval();
            let args: Vec<&Argument<String>> = sel.iter().map(|l| af.argument_set().get_argument(&lab(*l)).unwrap()).collect();
            let mut tb = Trickle::new(case.usize_stride);
            ResponseWriter::<String>::write_single_extension(&AspartixWriter, &mut tb, &args)
                .map_err(|e| Failure::new("C14/aspartix-extension/error", e.to_string()))?;
            let b = tb.data;
            let want = format!("[{}]\n", sel.iter().map(|l| lab(*l)).collect::<Vec<_>>().join(","));
            if b != want.as_bytes() {
                return Err(Failure::new(
                    "C14/aspartix-extension/bytes-differ",
                    format!("wrote {:?} expected {:?}", String::from_utf8_lossy(&b), want),
                ));
            }
        }
        {
            rec.eval();
            let ulab = |l: u8| l as usize * case.usize_stride as usize + 1;
            let all: Vec<usize> = order.iter().map(|l| ulab(*l)).collect();
            let set = ArgumentSet::new_with_labels(&all);
            let args: Vec<&Argument<usize>> = sel.iter().map(|l| set.get_argument(&ulab(*l)).unwrap()).collect();
            let mut tb = Trickle::new(case.style);
            ResponseWriter::<usize>::write_single_extension(&Iccma23Writer, &mut tb, &args)
                .map_err(|e| Failure::new("C14/iccma23-extension/error", e.to_string()))?;
            let b = tb.data;
            let mut want = String::from("w");
            for l in &sel {
                want.push(' ');
                want.push_str(&ulab(*l).to_string());
            }
            want.push('\n');
            if b != want.as_bytes() {
                return Err(Failure::new(
                    "C14/iccma23-extension/bytes-differ",
                    format!("wrote {:?} expected {:?}", String::from_utf8_lossy(&b), want),
                ));
            }
        }
        // 4. statuses
        for st in [true, false] {
            for which in 0..2 {
                rec.eval();
                let mut b: Vec<u8> = vec![];
                if which == 0 {
                    ResponseWriter::<String>::write_acceptance_status(&AspartixWriter, &mut b, st)
                } else {
                    ResponseWriter::<usize>::write_acceptance_status(&Iccma23Writer, &mut b, st)
                }
                .map_err(|e| Failure::new("C14/status/error", e.to_string()))?;
                let want: &[u8] = if st { b"YES\n" } else { b"NO\n" };
                if b != want {
                    return Err(Failure::new("C14/status/bytes-differ", format!("{:?}", String::from_utf8_lossy(&b))));
                }
            }
        }
        for which in 0..2 {
            let mut b: Vec<u8> = vec![];
            if which == 0 {
                ResponseWriter::<String>::write_no_extension(&AspartixWriter, &mut b)
            } else {
                ResponseWriter::<usize>::write_no_extension(&Iccma23Writer, &mut b)
            }
            .map_err(|e| Failure::new("C14/no-extension/error", e.to_string()))?;
            if b != b"NO\n" {
                return Err(Failure::new("C14/no-extension/bytes-differ", format!("{:?}", String::from_utf8_lossy(&b))));
            }
        }
        if removed_args >= 1 {
            rec.class("history-removed-argument");
        }
        if sel.is_empty() {
            rec.class("empty-extension");
        }
        if removed_args >= 1 && removed_atts >= 1 && sel.len() >= 2 && rec.nontrivial(&serde_json::to_string(case).unwrap()) {
            rec.sample_sized(case.ops.len(), || json!({"case": case, "framework_text": text, "extension": sel.iter().map(|l| lab(*l)).collect::<Vec<_>>()}));
        }
        Ok(())
    }
}
