//! C06: answers do not depend on encoding, SAT backend, certificate flag or query order;
//! querying never modifies the framework. Every answer of a generated query script put to ONE
//! solver object is compared with the reference (stronger than comparing configurations pairwise).

use crate::build::{build, Built};
use crate::checks::statics::enc_feasible;
use crate::engine::{CheckResult, Failure, Prop, Rec, Tier};
use crate::extsat::{kissat_backend, FakeSat};
use crate::gen::{self, idx, GraphCase};
use crate::oracle::{self, Fams, Sem, G};
use crate::queries::{snapshot, Enc, Kind, LabelMap, SolverObj, Q};
use crate::satwrap::{self, embedded, Backend, Shared};
use crate::util::{guard, mask_to_vec, masks_to_vecs};
use crustabri::aa::AAFramework;
use crustabri::utils::LabelType;
use proptest::collection::vec;
use proptest::prelude::*;
use serde::{Deserialize, Serialize};
use serde_json::json;

#[derive(Clone, Debug, PartialEq, Eq, Hash, Serialize, Deserialize)]
pub struct Step {
    pub q: u8,
    pub arg: u16,
    pub cert: bool,
    pub twice: bool,
}

#[derive(Clone, Debug, Serialize, Deserialize)]
pub struct ConfigCase {
    pub gc: GraphCase,
    pub kind: Kind,
    pub enc_pick: u8,
    /// 0 embedded, 1 fake_sat, 2 kissat (falls back to fake_sat when not installed), 3 embedded behind the model chooser
    pub backend: u8,
    pub script: Vec<Step>,
}

/// Either a small framework with a query script on one solver object, or a medium-size framework
/// (40-200 arguments) on which the embedded and an external backend are compared problem by problem.
#[derive(Clone, Debug, Serialize, Deserialize)]
pub enum ConfigAny {
    Small(ConfigCase),
    Medium { meta: crate::checks::metamorphic::MetaCase, kissat: bool, picks: Vec<u8> },
    /// One problem put to the command line front end under every --encoding value and with the
    /// embedded solver, the harness's external solver and (when installed) kissat.
    CliMatrix { g: gen::AbsGraph, q: u8, sem: u8, arg: u16, cert: bool },
}

pub struct Config;

pub const KINDS: [Kind; 7] = [Kind::Gr, Kind::Co, Kind::Pr, Kind::St, Kind::Sst, Kind::Stg, Kind::Id];

pub fn sem_of(kind: Kind) -> Sem {
    match kind {
        Kind::Gr => Sem::GR,
        Kind::Co => Sem::CO,
        Kind::Pr => Sem::PR,
        Kind::St => Sem::ST,
        Kind::Sst => Sem::SST,
        Kind::Stg => Sem::STG,
        Kind::Id => Sem::ID,
    }
}

pub fn encs_of(kind: Kind) -> Vec<Enc> {
    match kind {
        Kind::Gr => vec![Enc::NoEnc],
        Kind::St => vec![Enc::Stable],
        Kind::Stg => vec![Enc::AuxCf, Enc::ExpCf],
        Kind::Pr => vec![Enc::AuxCo, Enc::ExpCo, Enc::Hybrid, Enc::AuxAdm],
        _ => vec![Enc::AuxCo, Enc::ExpCo, Enc::Hybrid],
    }
}

pub fn queries_of(kind: Kind, enc: Enc) -> Vec<Q> {
    match kind {
        Kind::Co => vec![Q::DC],
        // the admissibility encoder is only selectable for SE-PR
        Kind::Pr if enc == Enc::AuxAdm => vec![Q::SE],
        Kind::Pr => vec![Q::SE, Q::DS],
        _ => vec![Q::SE, Q::DC, Q::DS],
    }
}

impl Config {
    #[allow(clippy::too_many_arguments)]
    fn run_generic<T: LabelType>(
        &self,
        af: &AAFramework<T>,
        labels: &[T],
        case: &ConfigCase,
        enc: Enc,
        backend: &Backend,
        bname: &str,
        fake: Option<&FakeSat>,
        rec: &mut Rec,
    ) -> CheckResult {
        let g = G::new(case.gc.g.n, &case.gc.g.att_usize());
        let fams = match Fams::auto(&g) {
            Some(f) => f,
            None => {
                rec.class("medium-size-graph-skipped-too-many-extensions");
                return Ok(());
            }
        };
        if g.n > 13 {
            rec.class("script-on-a-medium-size-graph-14-24-arguments");
        }
        let lm = LabelMap::new(af, labels);
        let sem = sem_of(case.kind);
        let exts = fams.exts(sem);
        let qs = queries_of(case.kind, enc);
        let before = snapshot(af);
        let shared = Shared::new(5_000);
        let mut s = SolverObj::new(af, case.kind, enc, satwrap::factory_with(&shared, backend));
        let sigp = format!("C06/{:?}-solver/{}/{}", case.kind, enc.name(), bname);
        let mut kinds_used = std::collections::BTreeSet::new();
        let mut repeated = false;
        let mut history: Vec<String> = vec![];
        for st in &case.script {
            let q = qs[st.q as usize % qs.len()];
            if q != Q::SE && g.n == 0 {
                continue;
            }
            let a = idx(st.arg, g.n.max(1));
            let reps = if st.twice { 2 } else { 1 };
            if st.twice {
                repeated = true;
            }
            for _ in 0..reps {
                rec.eval();
                let desc = format!("{}{}{}", q.name(), if q == Q::SE { String::new() } else { format!("({})", a) }, if st.cert { "+cert" } else { "" });
                if history.contains(&desc) {
                    repeated = true;
                }
                history.push(desc.clone());
                kinds_used.insert((q, st.cert));
                let r = guard(|| match q {
                    Q::SE => (None, s.se()),
                    Q::DC => {
                        let (b, c) = s.dc(&[&labels[a]], st.cert);
                        (Some(b), c)
                    }
                    Q::DS => {
                        let (b, c) = s.ds(&[&labels[a]], st.cert);
                        (Some(b), c)
                    }
                });
                let ctx = || format!("after {:?} on one solver object", history);
                let (status, set) = match r {
                    Err(p) => {
                        let extra = fake.map(|f| f.illformed().join(" ;; ")).unwrap_or_default();
                        return Err(Failure::new(format!("{}/{}/panic", sigp, q.name()), format!("{} {} {}", p, extra, ctx())));
                    }
                    Ok(x) => x,
                };
                let mask = match set {
                    None => None,
                    Some(e) => Some(lm.mask(&e).map_err(|m| Failure::new(format!("{}/{}/foreign-or-duplicate-member", sigp, q.name()), m))?),
                };
                let bit = 1u32 << a;
                match q {
                    Q::SE => {
                        let ok = match mask {
                            None => exts.is_empty(),
                            Some(m) => exts.contains(&m),
                        };
                        if !ok {
                            return Err(Failure::new(
                                format!("{}/SE/wrong-answer", sigp),
                                format!("returned {:?} reference {:?} {}", mask.map(mask_to_vec), masks_to_vecs(&exts), ctx()),
                            ));
                        }
                    }
                    _ => {
                        let expected = if q == Q::DC { oracle::dc(&exts, bit) } else { oracle::ds(&exts, bit) };
                        if status != Some(expected) {
                            return Err(Failure::new(
                                format!("{}/{}/status-got-{:?}-expected-{}", sigp, q.name(), status.unwrap(), expected),
                                format!("argument {} reference {:?} {}", a, masks_to_vecs(&exts), ctx()),
                            ));
                        }
                        if let Some(m) = mask {
                            let promised = if q == Q::DC { expected } else { !expected };
                            if !st.cert || !promised || !exts.contains(&m) || ((q == Q::DC) != (m & bit != 0)) {
                                return Err(Failure::new(
                                    format!("{}/{}/bad-certificate", sigp, q.name()),
                                    format!("argument {} certificate {:?} {}", a, mask_to_vec(m), ctx()),
                                ));
                            }
                        } else if st.cert && (if q == Q::DC { expected } else { !expected }) {
                            return Err(Failure::new(format!("{}/{}/missing-certificate", sigp, q.name()), ctx()));
                        }
                    }
                }
            }
        }
        drop(s);
        if snapshot(af) != before {
            return Err(Failure::new(format!("{}/framework-modified-by-queries", sigp), format!("{:?}", history)));
        }
        if let Some(f) = fake {
            let bad = f.illformed();
            if !bad.is_empty() {
                return Err(Failure::new(format!("{}/ill-formed-dimacs", sigp), bad.join(" ;; ")));
            }
        }
        rec.class(&format!("backend-{}", bname));
        rec.class(&format!("solver-{:?}", case.kind));
        if repeated && kinds_used.len() >= 2 && exts.len() >= 2 && rec.nontrivial(&serde_json::to_string(case).unwrap()) {
            rec.sample_sized(history.len(), || json!({"graph": case.gc, "solver": format!("{:?}", case.kind), "encoding": enc.name(), "backend": bname, "script": history}));
        }
        Ok(())
    }
}

impl Prop for Config {
    type Case = ConfigAny;
    fn id(&self) -> &'static str {
        "C06"
    }
    fn rule(&self) -> String {
        "A framework of <=8 arguments, ONE solver object per (solver type, selectable encoder, backend in {embedded CaDiCaL, ExternalSatSolver(fake_sat), ExternalSatSolver(kissat) when installed}) and a generated script of 3-12 steps put to that object (SE/DC/DS as the type supports, arguments with repetition, with and without certificate, the same query twice in a row). Every answer is compared with the brute-force reference (so all configurations agree with each other and none can be wrong in the same way), and a snapshot of the framework (labels, ids, attacks, counts) taken before the script equals the one after. About 1 case in 250 is a framework of 40-200 arguments (generator of C11, too large for the brute-force oracle) on which 3-6 generated problems are answered through the embedded backend and through an external solver process (kissat or fake_sat): statuses and presence of a set must be equal and every returned set must satisfy the polynomial necessary conditions (instances of hundreds of SAT variables go through the DIMACS exchange). Non-trivial: >=1 repeated query and >=2 distinct (query kind, certificate flag) pairs on a framework with >=2 extensions, or a medium-size comparison; distinct = case.".into()
    }
    fn assumptions(&self) -> Vec<String> {
        vec!["oracle.rs".into(), "kissat optional; its absence lowers coverage only".into()]
    }
    fn strategy(&self, tier: Tier) -> BoxedStrategy<ConfigAny> {
        let medium = (crate::checks::metamorphic::meta_strategy(tier), any::<bool>(), vec(any::<u8>(), 3..=6))
            .prop_map(|(meta, kissat, picks)| ConfigAny::Medium { meta, kissat, picks });
        // the semantics whose encoder selection has special cases on the command line get more weight
        let matrix = (gen::graph(8), 0u8..3, prop_oneof![5 => 0u8..7, 3 => Just(5u8), 2 => Just(4u8)], any::<u16>(), any::<bool>())
            .prop_map(|(g, q, sem, arg, cert)| ConfigAny::CliMatrix { g, q, sem, arg, cert });
        // query scripts on ONE solver object over an irregular graph of 14-24 arguments (embedded backend,
        // plain or behind the model chooser)
        let med_script = (crate::checks::statics::medium_strategy(), 0usize..KINDS.len(), any::<u8>(), prop_oneof![Just(0u8), Just(3u8)], vec((0u8..3, any::<u16>(), any::<bool>(), prop_oneof![3 => Just(false), 1 => Just(true)]), 3..=10))
            .prop_map(|(gc, k, enc_pick, backend, script)| {
                ConfigAny::Small(ConfigCase { gc, kind: KINDS[k], enc_pick, backend, script: script.into_iter().map(|(q, arg, cert, twice)| Step { q, arg, cert, twice }).collect() })
            });
        prop_oneof![250 => self.small_strategy(tier).prop_map(ConfigAny::Small), 1 => medium, 4 => matrix, 4 => med_script].boxed()
    }
    fn max_shrink_iters(&self) -> u32 {
        3_000
    }
    fn n_cases(&self, tier: Tier) -> u32 {
        tier.pick(40_000, 300_000)
    }
    fn run(&self, case: &ConfigAny, rec: &mut Rec) -> CheckResult {
        match case {
            ConfigAny::Small(c) => self.run_small(c, rec),
            ConfigAny::CliMatrix { g, q, sem, arg, cert } => self.run_cli_matrix(g, *q, *sem, *arg, *cert, rec).map_err(|f| f.unshrinkable()),
            ConfigAny::Medium { meta, kissat, picks } => {
                let fake = FakeSat::get();
                fake.configure(json!({}));
                let (backend, bname): (Backend, &str) = match (kissat, kissat_backend()) {
                    (true, Some(k)) => (k, "kissat"),
                    _ => (fake.backend(), "fake_sat"),
                };
                rec.eval();
                // each evaluation costs hundreds of external solver runs: a failure is reported as found, not shrunk
                let (n, compared) = crate::checks::metamorphic::backends_agree_on_medium(meta, &backend, bname, picks).map_err(|f| f.unshrinkable())?;
                if bname == "fake_sat" {
                    let bad = fake.illformed();
                    if !bad.is_empty() {
                        return Err(Failure::new("C06/medium/ill-formed-dimacs", bad[0].chars().take(400).collect::<String>()));
                    }
                }
                if compared > 0 {
                    rec.evals(compared as u64);
                    rec.count("medium-framework-answers-compared-between-backends", compared as u64);
                    rec.class(&format!("medium-framework-n-{:03}+-{}", (n / 50) * 50, bname));
                    if rec.nontrivial(&serde_json::to_string(case).unwrap()) {
                        rec.sample(|| json!({"medium_framework_arguments": n, "external_backend": bname, "answers_compared": compared}));
                    }
                }
                Ok(())
            }
        }
    }
}

impl Config {
    pub fn small_strategy(&self, tier: Tier) -> BoxedStrategy<ConfigCase> {
        let nmax = 8;
        let maxlen = tier.pick(12usize, 30usize);
        (
            gen::graph(nmax),
            gen::pres(nmax),
            0usize..KINDS.len(),
            any::<u8>(),
            prop_oneof![55 => Just(0u8), 12 => Just(1u8), 8 => Just(2u8), 25 => Just(3u8)],
            vec((0u8..3, any::<u16>(), any::<bool>(), prop_oneof![3 => Just(false), 1 => Just(true)]), 3..=maxlen),
        )
            .prop_map(|(g, pres, k, enc_pick, backend, script)| ConfigCase {
                gc: GraphCase { g, pres },
                kind: KINDS[k],
                enc_pick,
                backend,
                script: script.into_iter().map(|(q, arg, cert, twice)| Step { q, arg, cert, twice }).collect(),
            })
            .boxed()
    }
}

impl Config {
    fn run_small(&self, case: &ConfigCase, rec: &mut Rec) -> CheckResult {
        let encs = encs_of(case.kind);
        let enc = encs[case.enc_pick as usize % encs.len()];
        if !enc_feasible(enc, &case.gc.g, &case.gc.pres) {
            return Ok(());
        }
        let fake = FakeSat::get();
        let (backend, bname, fk): (Backend, &str, Option<&FakeSat>) = match case.backend {
            0 => (embedded(), "embedded", None),
            3 => {
                // the embedded solver behind the model chooser: answers may not depend on which models come back
                use std::hash::{Hash, Hasher};
                let mut h = std::collections::hash_map::DefaultHasher::new();
                serde_json::to_string(case).unwrap().hash(&mut h);
                let v = h.finish();
                (satwrap::choosy(v >> 8, (v % 3) as u8, 64), "embedded-chosen-models", None)
            }
            2 => match kissat_backend() {
                Some(k) => (k, "kissat", None),
                None => {
                    fake.configure(json!({}));
                    (fake.backend(), "fake_sat", Some(&fake))
                }
            },
            _ => {
                fake.configure(json!({}));
                (fake.backend(), "fake_sat", Some(&fake))
            }
        };
        // a solver that takes no SAT backend gains nothing from an external one
        let (backend, bname, fk) = if case.kind == Kind::Gr { (embedded(), "embedded", None) } else { (backend, bname, fk) };
        match build(&case.gc) {
            Built::U(af, labels) => self.run_generic(&af, &labels, case, enc, &backend, bname, fk, rec),
            Built::S(af, labels) => self.run_generic(&af, &labels, case, enc, &backend, bname, fk, rec),
            Built::C(af, labels) => self.run_generic(&af, &labels, case, enc, &backend, bname, fk, rec),
        }
    }
}

impl Config {
    /// The first answer line of `crustabri solve` may not depend on --encoding nor on the backend.
    fn run_cli_matrix(&self, ag: &gen::AbsGraph, q: u8, sem: u8, arg: u16, cert: bool, rec: &mut Rec) -> CheckResult {
        use crate::repobin;
        let q = [Q::SE, Q::DC, Q::DS][q as usize % 3];
        let sem = oracle::ALL_SEMS[sem as usize % oracle::ALL_SEMS.len()];
        if ag.n == 0 && q != Q::SE {
            return Ok(());
        }
        let (bin, _) = repobin::ensure().map_err(|e| Failure::new("C06/cli-matrix/cannot-build-repo-binaries", e).unshrinkable())?;
        let g = G::new(ag.n, &ag.att_usize());
        let fams = Fams::new(&g);
        let exts = fams.exts(sem);
        let a = idx(arg, ag.n.max(1));
        let expected = match q {
            Q::SE => !exts.is_empty(),
            Q::DC => oracle::dc(&exts, 1 << a),
            Q::DS => oracle::ds(&exts, 1 << a),
        };
        let fake = FakeSat::get();
        fake.configure(json!({}));
        let file = fake.dir.join("matrix.af");
        std::fs::write(&file, crate::build::iccma_text(ag)).map_err(|e| Failure::new("C06/cli-matrix/scratch-write", e.to_string()))?;
        let mut backends: Vec<(&str, Vec<String>)> = vec![
            ("embedded", vec![]),
            ("fake_sat", vec!["--external-sat-solver".into(), fake.exe.clone(), "--external-sat-solver-opt".into(), fake.option()]),
        ];
        if let Some(k) = crate::extsat::kissat() {
            // a value starting with a hyphen has to be attached with "=" (clap would take it for a flag otherwise)
            backends.push(("kissat", vec!["--external-sat-solver".into(), k, "--external-sat-solver-opt=-q".into()]));
        }
        let mut compared = 0u64;
        for encoding in ["", "aux_var", "exp", "hybrid"] {
            if encoding == "exp" && crate::checks::statics::exp_cost(ag, true) > crate::checks::statics::EXP_LIMIT {
                continue;
            }
            for (bname, bargs) in &backends {
                let mut args: Vec<String> = vec![
                    "solve".into(),
                    "-f".into(),
                    file.to_string_lossy().to_string(),
                    "-p".into(),
                    format!("{}-{}", q.name(), sem.name()),
                ];
                if q != Q::SE {
                    args.push("-a".into());
                    args.push((a + 1).to_string());
                }
                if cert {
                    args.push("--with-certificate".into());
                }
                if !encoding.is_empty() {
                    args.push("--encoding".into());
                    args.push(encoding.into());
                }
                args.push("--logging-level".into());
                args.push("off".into());
                args.extend(bargs.iter().cloned());
                rec.eval();
                let out = repobin::run_cli(&bin, &args, std::time::Duration::from_secs(60));
                if out.timed_out {
                    rec.inconclusive("cli-timeout");
                    continue;
                }
                let sig = format!("C06/cli-matrix/{}-{}/encoding-{}/{}", q.name(), sem.name(), if encoding.is_empty() { "default" } else { encoding }, bname);
                let lines = repobin::answer_lines(&out.stdout);
                let status = match lines.first().map(|l| l.trim_end()) {
                    Some("YES") => Some(true),
                    Some("NO") => Some(false),
                    Some(l) if q == Q::SE && (l == "w" || l.starts_with("w ")) => Some(true),
                    _ => None,
                };
                if out.code != Some(0) || status.is_none() {
                    return Err(Failure::new(
                        format!("{}/no-status", sig),
                        format!("argv {:?} exit {:?} stdout {:?} stderr {:?}", args, out.code, out.stdout.chars().take(300).collect::<String>(), out.stderr.chars().take(300).collect::<String>()),
                    ));
                }
                if status != Some(expected) {
                    return Err(Failure::new(
                        format!("{}/status-differs-from-the-other-configurations", sig),
                        format!("argv {:?}: got {:?}, the reference answer (and the other configurations) say {}", args, lines.first(), expected),
                    ));
                }
                compared += 1;
            }
        }
        let bad = fake.illformed();
        if !bad.is_empty() {
            return Err(Failure::new("C06/cli-matrix/ill-formed-dimacs", bad[0].chars().take(400).collect::<String>()));
        }
        rec.count("cli-configurations-compared", compared);
        rec.class("cli-matrix-encodings-x-backends");
        if exts.len() >= 2 || exts.is_empty() {
            if rec.nontrivial(&("cli-matrix", ag.canonical(), q, sem, a, cert)) {
                rec.sample(|| json!({"cli_matrix": {"graph": ag, "problem": format!("{}-{}", q.name(), sem.name()), "argument": a + 1,
                    "with_certificate": cert, "configurations_compared": compared, "expected_status": expected}}));
            }
        }
        Ok(())
    }
}
