//! C17: a failing SAT backend never turns into an answer. Fault enumeration: every SAT-call
//! position of a generated query gets the failure, at library, process and command-line level.

use crate::build::{apx_label, apx_text, build, iccma_text, order_from_keys, Built};
use crate::checks::dynamic::{self, DynCase, DynKind, Model, OpT, FACTORS};
use crate::checks::statics::enc_feasible;
use crate::engine::{CheckResult, Failure, Prop, Rec, Tier};
use crate::extsat::FakeSat;
use crate::gen::{self, idx, GraphCase, Pres};
use crate::oracle::{Fams, Sem, ALL_SEMS, G};
use crate::problem::{check_answer, run_problem, Answer};
use crate::queries::{encodings_for, Enc, Q};
use crate::repobin;
use crate::satwrap::{self, Shared};
use crate::util::guard;
use proptest::collection::vec;
use proptest::prelude::*;
use serde::{Deserialize, Serialize};
use serde_json::json;
use std::time::Duration;

pub const FAULT_KINDS: [&str; 8] =
    ["exit_silent", "exit_nonzero", "status_no_model", "truncated_model", "garbage", "unknown", "crash", "garbage_after"];

#[derive(Clone, Debug, Serialize, Deserialize)]
pub struct ProblemCase {
    pub gc: GraphCase,
    pub sem: Sem,
    pub q: Q,
    pub enc_pick: u8,
    pub arg: u16,
    pub cert: bool,
}

#[derive(Clone, Debug, Serialize, Deserialize)]
pub enum FaultCase {
    /// `SolvingResult::Unknown` injected at every call position, static solvers.
    Lib(ProblemCase),
    /// the same for a dynamic-solver history
    LibDynamic(DynCase),
    /// a fault of the given kind at every invocation of the external process (library level)
    Proc(ProblemCase, u8),
    /// the same through `crustabri solve --external-sat-solver`
    Cli(ProblemCase, u8),
    /// `Unknown` injected at every call position of LIST queries (1-3 arguments, possibly in several
    /// components) on every static solver type that takes lists
    LibList(crate::checks::multi::MultiCase),
}

pub struct Faults;

fn problem_case(nmax: usize, compact_only: bool) -> BoxedStrategy<ProblemCase> {
    let pres = if compact_only { gen::pres_compact(nmax) } else { gen::pres(nmax) };
    (gen::graph(nmax), pres, 0usize..7, 0u8..3, any::<u8>(), any::<u16>(), any::<bool>())
        .prop_filter("needs an argument for DC/DS", |(g, _, _, q, _, _, _)| *q == 0 || g.n >= 1)
        .prop_map(|(g, pres, s, q, enc_pick, arg, cert)| {
            let q = [Q::SE, Q::DC, Q::DS][q as usize];
            let mut sem = ALL_SEMS[s];
            // problems answered without any SAT call offer no position to fail: keep few of them
            if crate::queries::kind_for(q, sem) == crate::queries::Kind::Gr && enc_pick % 8 != 0 {
                sem = [Sem::PR, Sem::ST, Sem::SST, Sem::STG, Sem::ID][(enc_pick as usize / 8) % 5];
            }
            ProblemCase { gc: GraphCase { g, pres }, sem, q, enc_pick, arg, cert }
        })
        .boxed()
}

fn pick_enc(pc: &ProblemCase) -> Enc {
    let encs = encodings_for(pc.q, pc.sem);
    encs[pc.enc_pick as usize % encs.len()]
}

/// What a garbled line is made of: plain text, bytes that are not UTF-8, a reply cut inside a multi-byte
/// character, Latin-1 text.
const GARBAGE_FLAVOURS: [&str; 4] = ["ascii", "binary", "cut_utf8", "latin1"];

/// Runs the problem with the given factory-producing closure; generic over label type.
fn run_pc(pc: &ProblemCase, enc: Enc, a: usize, mk: &dyn Fn() -> Box<crustabri::sat::SatSolverFactoryFn>) -> Result<Result<Answer, String>, String> {
    match build(&pc.gc) {
        Built::U(af, labels) => run_problem(&af, &labels, pc.q, pc.sem, enc, a, pc.cert, mk()),
        Built::S(af, labels) => run_problem(&af, &labels, pc.q, pc.sem, enc, a, pc.cert, mk()),
        Built::C(af, labels) => run_problem(&af, &labels, pc.q, pc.sem, enc, a, pc.cert, mk()),
    }
}

impl Faults {
    fn lib(&self, pc: &ProblemCase, rec: &mut Rec) -> CheckResult {
        let enc = pick_enc(pc);
        if !enc_feasible(enc, &pc.gc.g, &pc.gc.pres) {
            return Ok(());
        }
        let g = G::new(pc.gc.g.n, &pc.gc.g.att_usize());
        let fams = Fams::new(&g);
        let a = idx(pc.arg, g.n.max(1));
        let name = format!("{}-{}", pc.q.name(), pc.sem.name());
        // clean run: learn k, and make sure it is the k of a correct computation
        let shared = Shared::new(satwrap::DEFAULT_CAP);
        let clean = run_pc(pc, enc, a, &|| satwrap::factory(&shared));
        let k = shared.n_calls();
        match clean {
            Err(p) => return Err(Failure::new(format!("C17/lib/{}/clean-run-panicked", name), p)),
            Ok(Err(m)) => return Err(Failure::new(format!("C17/lib/{}/clean-run-invalid-set", name), m)),
            Ok(Ok(ans)) => {
                if let Err((what, msg)) = check_answer(&ans, &fams, pc.q, pc.sem, a, pc.cert) {
                    return Err(Failure::new(format!("C17/lib/{}/clean-run-wrong/{}", name, what), msg));
                }
            }
        }
        rec.class(&format!("lib-k={}", k.min(9)));
        for j in 1..=k {
            rec.eval();
            let shared = Shared::faulty(satwrap::DEFAULT_CAP, j);
            let r = run_pc(pc, enc, a, &|| satwrap::factory(&shared));
            if k >= 2 && rec.nontrivial(&(serde_json::to_string(pc).unwrap(), "lib", j)) {
                rec.sample(|| json!({"level": "library", "problem": name, "encoding": enc.name(), "case": pc, "calls_in_clean_run": k, "unknown_injected_at_call": j, "outcome": if r.is_err() {"unwound"} else {"ANSWER"}}));
            }
            if let Ok(x) = r {
                return Err(Failure::new(
                    format!("C17/lib/{}/{}/answer-produced-despite-unknown", name, enc.name()),
                    format!("Unknown injected at SAT call {} of {}; the query returned {:?}", j, k, x),
                ));
            }
        }
        Ok(())
    }

    fn lib_list(&self, mc: &crate::checks::multi::MultiCase, rec: &mut Rec) -> CheckResult {
        use crate::queries::{kind_for, SolverObj};
        if mc.gc.g.n == 0 || mc.picks.is_empty() || mc.gc.g.n > 13 {
            return Ok(());
        }
        let g = G::new(mc.gc.g.n, &mc.gc.g.att_usize());
        let list = crate::checks::multi::resolve_picks(&g, &mc.gc.g.att, mc.mode % 3, &mc.picks);
        rec.class(&format!("list-query-over-{}-components", g.components().len().min(4)));
        macro_rules! go {
            ($af:expr, $labels:expr) => {{
                let refs: Vec<_> = list.iter().map(|a| &$labels[*a]).collect();
                for q in [Q::DC, Q::DS] {
                    for sem in crate::oracle::ALL_SEMS {
                        if kind_for(q, sem) == crate::queries::Kind::Gr || (q == Q::DC && sem == crate::oracle::Sem::PR) {
                            continue;
                        }
                        let encs = encodings_for(q, sem);
                        let enc = encs[mc.choice.0 as usize % encs.len()];
                        if !enc_feasible(enc, &mc.gc.g, &mc.gc.pres) {
                            continue;
                        }
                        for cert in [false, true] {
                            let run = |shared: &std::rc::Rc<Shared>| {
                                guard(|| {
                                    let mut s = SolverObj::new($af, kind_for(q, sem), enc, satwrap::factory(shared));
                                    if q == Q::DC {
                                        s.dc(&refs, cert).0
                                    } else {
                                        s.ds(&refs, cert).0
                                    }
                                })
                            };
                            let shared = Shared::new(satwrap::DEFAULT_CAP);
                            if run(&shared).is_err() {
                                // a clean run that unwinds is C07's business (or the call cap): nothing to inject into
                                continue;
                            }
                            let k = shared.n_calls();
                            for j in 1..=k {
                                rec.eval();
                                let shared = Shared::faulty(satwrap::DEFAULT_CAP, j);
                                if let Ok(status) = run(&shared) {
                                    return Err(Failure::new(
                                        format!("C17/lib-list/{}-{}/{}/answer-produced-despite-unknown", q.name(), sem.name(), enc.name()),
                                        format!("list {:?} (certificate requested: {}): Unknown injected at SAT call {} of {}; the query answered {}", list, cert, j, k, status),
                                    ));
                                }
                            }
                        }
                    }
                }
                Ok(())
            }};
        }
        match build(&mc.gc) {
            Built::U(af, labels) => go!(&af, labels),
            Built::S(af, labels) => go!(&af, labels),
            Built::C(af, labels) => go!(&af, labels),
        }
    }

    fn lib_dynamic(&self, case: &DynCase, rec: &mut Rec) -> CheckResult {
        // Replays a valid history; returns Ok(None) if it completes, Ok(Some(step)) if it unwound at a query.
        let factor = FACTORS[case.factor as usize % FACTORS.len()];
        let run = |shared: &std::rc::Rc<Shared>| -> Result<Option<usize>, Failure> {
            let mut s = dynamic::make(case.kind, factor, shared);
            let mut m = Model::default();
            for (pos, op) in case.ops.iter().enumerate() {
                let before = shared.n_calls();
                let will_fail = shared.fail_at.get();
                match op {
                    OpT::NewArg(_) | OpT::RemArg(_) | OpT::NewAtt(..) | OpT::RemAtt(_) | OpT::Query { .. } => {}
                    _ => continue,
                }
                let r = guard(|| dynamic::apply_valid(&mut s, &mut m, op, case.kind));
                match r {
                    Ok(Ok(())) => {
                        // the step completed: the failing call must not have happened inside it
                        if before < will_fail && shared.n_calls() >= will_fail {
                            return Err(Failure::new(
                                format!("C17/lib-dynamic/{:?}/answer-produced-despite-unknown", case.kind),
                                format!("Unknown injected at SAT call {}; step {} ({:?}) returned normally", will_fail, pos, op),
                            ));
                        }
                    }
                    Ok(Err(f)) => return Err(f),
                    Err(p) => {
                        if before < will_fail && shared.n_calls() >= will_fail {
                            return Ok(Some(pos));
                        }
                        return Err(Failure::new(format!("C17/lib-dynamic/{:?}/panic-without-fault", case.kind), p));
                    }
                }
            }
            Ok(None)
        };
        let shared = Shared::new(satwrap::DEFAULT_CAP);
        run(&shared)?;
        let k = shared.n_calls();
        rec.class(&format!("dyn-k={}", k.min(9)));
        for j in 1..=k {
            rec.eval();
            let shared = Shared::faulty(satwrap::DEFAULT_CAP, j);
            let r = run(&shared)?;
            if r.is_none() {
                return Err(Failure::new(
                    format!("C17/lib-dynamic/{:?}/history-completed-despite-unknown", case.kind),
                    format!("Unknown injected at SAT call {} of {}", j, k),
                ));
            }
            if k >= 2 && rec.nontrivial(&(serde_json::to_string(case).unwrap(), "dyn", j)) {
                rec.sample(|| json!({"level": "library-dynamic", "kind": format!("{:?}", case.kind), "calls_in_clean_run": k, "unknown_injected_at_call": j, "unwound_at_step": r}));
            }
        }
        Ok(())
    }

    fn proc(&self, pc: &ProblemCase, kind: u8, rec: &mut Rec) -> CheckResult {
        let enc = pick_enc(pc);
        if !enc_feasible(enc, &pc.gc.g, &pc.gc.pres) {
            return Ok(());
        }
        let fault = FAULT_KINDS[kind as usize % FAULT_KINDS.len()];
        let g = G::new(pc.gc.g.n, &pc.gc.g.att_usize());
        let fams = Fams::new(&g);
        let a = idx(pc.arg, g.n.max(1));
        let name = format!("{}-{}", pc.q.name(), pc.sem.name());
        let fake = FakeSat::get();
        fake.configure(json!({}));
        let shared = Shared::new(500);
        let backend = fake.backend();
        let clean = run_pc(pc, enc, a, &|| satwrap::factory_with(&shared, &backend));
        let k = shared.n_calls();
        match clean {
            Err(p) => return Err(Failure::new(format!("C17/proc/{}/clean-run-panicked", name), p)),
            Ok(Err(m)) => return Err(Failure::new(format!("C17/proc/{}/clean-run-invalid-set", name), m)),
            Ok(Ok(ans)) => {
                if let Err((what, msg)) = check_answer(&ans, &fams, pc.q, pc.sem, a, pc.cert) {
                    return Err(Failure::new(format!("C17/proc/{}/clean-run-wrong/{}", name, what), msg));
                }
            }
        }
        rec.class(&format!("proc-{}", fault));
        for j in 1..=k {
            rec.eval();
            fake.configure(json!({"faults": {(j - 1).to_string(): fault}, "garbage_flavour": GARBAGE_FLAVOURS[(j + pc.arg as usize) % GARBAGE_FLAVOURS.len()], "trunc_flavour": (j + pc.arg as usize / 4) % 2}));
            let shared = Shared::new(500);
            let r = run_pc(pc, enc, a, &|| satwrap::factory_with(&shared, &backend));
            if k >= 2 && rec.nontrivial(&(serde_json::to_string(pc).unwrap(), "proc", j, fault)) {
                rec.sample(|| json!({"level": "process (ExternalSatSolver)", "problem": name, "encoding": enc.name(), "case": pc, "invocations_in_clean_run": k, "fault": fault, "at_invocation": j}));
            }
            if let Ok(x) = r {
                return Err(Failure::new(
                    format!("C17/proc/{}/answer-produced-despite-{}", name, fault),
                    format!("fault {} at external invocation {} of {}; the query returned {:?}", fault, j, k, x),
                ));
            }
        }
        if k >= 1 {
            // the solver program cannot be started at all
            rec.eval();
            let bogus = satwrap::external(fake.dir.join("no-such-solver").to_string_lossy().to_string(), vec![]);
            let shared = Shared::new(500);
            let r = run_pc(pc, enc, a, &|| satwrap::factory_with(&shared, &bogus));
            if let Ok(x) = r {
                return Err(Failure::new(
                    format!("C17/proc/{}/answer-produced-although-the-solver-cannot-be-started", name),
                    format!("the clean run makes {} external calls; with a non-existent program the query returned {:?}", k, x),
                ));
            }
            rec.class("proc-spawn-failure");
        }
        Ok(())
    }

    fn cli(&self, pc: &ProblemCase, kind: u8, rec: &mut Rec) -> CheckResult {
        let enc = pick_enc(pc);
        // every presentation but Aspartix is written as ICCMA text here, which keeps duplicate lines
        let file_pres = if matches!(pc.gc.pres, Pres::Apx { .. }) { pc.gc.pres.clone() } else { Pres::Iccma };
        if !enc_feasible(enc, &pc.gc.g, &file_pres) {
            return Ok(());
        }
        let (bin, _) = repobin::ensure().map_err(|e| std::panic::panic_any(crate::engine::Inconclusive(e))).unwrap();
        let fault = FAULT_KINDS[kind as usize % FAULT_KINDS.len()];
        let g = G::new(pc.gc.g.n, &pc.gc.g.att_usize());
        let a = idx(pc.arg, g.n.max(1));
        let fake = FakeSat::get();
        // instance file
        let (text, reader, arg_label) = match &pc.gc.pres {
            Pres::Apx { style, order_keys } => {
                let labels: Vec<String> = (0..g.n).map(|i| apx_label(*style, i)).collect();
                let order = order_from_keys(g.n, order_keys);
                (apx_text(&pc.gc.g, &labels, &order), "apx", labels.get(a).cloned().unwrap_or_default())
            }
            _ => (iccma_text(&pc.gc.g), "iccma23", (a + 1).to_string()),
        };
        let file = fake.dir.join("instance.af");
        std::fs::write(&file, text).expect("cannot write instance");
        let problem = format!("{}-{}", pc.q.name(), pc.sem.name());
        let mut args: Vec<String> = vec![
            "solve".into(),
            "-f".into(),
            file.to_string_lossy().to_string(),
            "--reader".into(),
            reader.into(),
            "-p".into(),
            problem.clone(),
            "--logging-level".into(),
            "off".into(),
            "--external-sat-solver".into(),
            fake.exe.clone(),
            "--external-sat-solver-opt".into(),
            fake.option(),
        ];
        if pc.q != Q::SE {
            args.push("-a".into());
            args.push(arg_label);
        }
        if pc.cert {
            args.push("--with-certificate".into());
        }
        if let Some(e) = enc.cli() {
            // SE-PR/aux_var selects the admissibility encoder on the command line
            args.push("--encoding".into());
            args.push(e.into());
        }
        fake.configure(json!({}));
        let clean = repobin::run_cli(&bin, &args, Duration::from_secs(60));
        if clean.timed_out {
            eprintln!("CLI clean run timed out: args {:?} log {:?} instance {:?}", args, fake.read_log(), std::fs::read_to_string(&file));
            std::panic::panic_any(crate::engine::Inconclusive("CLI timed out".into()));
        }
        if clean.code != Some(0) {
            return Err(Failure::new(
                format!("C17/cli/{}/clean-run-failed", problem),
                format!("exit {:?} stdout {:?} stderr {:?} args {:?}", clean.code, clean.stdout, clean.stderr, args),
            ));
        }
        let k = fake.read_log().iter().filter(|e| e["event"] == "start").count();
        rec.class(&format!("cli-{}", fault));
        for j in 1..=k {
            rec.eval();
            fake.configure(json!({"faults": {(j - 1).to_string(): fault}, "garbage_flavour": GARBAGE_FLAVOURS[(j + pc.arg as usize) % GARBAGE_FLAVOURS.len()], "trunc_flavour": (j + pc.arg as usize / 4) % 2}));
            let out = repobin::run_cli(&bin, &args, Duration::from_secs(60));
            if out.timed_out {
                eprintln!("CLI timed out: fault {} at {} of {} args {:?} log {:?}", fault, j, k, args, fake.read_log());
                std::panic::panic_any(crate::engine::Inconclusive("CLI timed out".into()));
            }
            if k >= 2 && rec.nontrivial(&(serde_json::to_string(pc).unwrap(), "cli", j, fault)) {
                rec.sample(|| json!({"level": "command line", "argv": args, "invocations_in_clean_run": k, "fault": fault, "at_invocation": j, "exit": out.code, "stdout": out.stdout}));
            }
            let answers: Vec<String> = repobin::answer_lines(&out.stdout).into_iter().filter(|l| repobin::looks_like_answer(l)).collect();
            if out.code == Some(0) || !answers.is_empty() {
                return Err(Failure::new(
                    format!("C17/cli/{}/answer-or-success-despite-{}", problem, fault),
                    format!("fault {} at invocation {} of {}: exit {:?}, stdout {:?}", fault, j, k, out.code, out.stdout),
                ));
            }
        }
        if k >= 1 {
            rec.eval();
            let mut args2 = args.clone();
            if let Some(i) = args2.iter().position(|x| x == "--external-sat-solver") {
                args2[i + 1] = fake.dir.join("no-such-solver").to_string_lossy().to_string();
            }
            let out = repobin::run_cli(&bin, &args2, Duration::from_secs(60));
            let answers: Vec<String> = repobin::answer_lines(&out.stdout).into_iter().filter(|l| repobin::looks_like_answer(l)).collect();
            if !out.timed_out && (out.code == Some(0) || !answers.is_empty()) {
                return Err(Failure::new(
                    format!("C17/cli/{}/answer-or-success-although-the-solver-cannot-be-started", problem),
                    format!("the clean run makes {} external calls; with a non-existent program: exit {:?}, stdout {:?}", k, out.code, out.stdout),
                ));
            }
            rec.class("cli-spawn-failure");
        }
        Ok(())
    }
}

impl Prop for Faults {
    type Case = FaultCase;
    fn id(&self) -> &'static str {
        "C17"
    }
    fn level(&self) -> &'static str {
        "fault_enumeration"
    }
    fn rule(&self) -> String {
        "For each generated (framework <=8 arguments, problem among the 21, selectable encoder, argument, certificate flag) and each generated dynamic-solver history (C08 generator), the clean run is checked against the reference semantics and its number k of SAT calls is recorded; then the query is re-run once for EVERY position j in 1..k with the failure at call j: SolvingResult::Unknown through a wrapper (library level, static and dynamic solvers), and the kinds {exit without output, non-zero exit, status without model, truncated model / truncated status, stray line before or after the verdict, s UNKNOWN, abort} through the harness-owned external solver, plus a solver program that cannot be started at all, (ExternalSatSolver and `crustabri solve --external-sat-solver`). The call must unwind / the process must exit non-zero without an answer line. One evaluation = one (case, position, kind). Non-trivial: k >= 2 (the failure can hit a second-level call); distinct = (case, level, j, kind).".into()
    }
    fn assumptions(&self) -> Vec<String> {
        vec![
            "failure kinds are those listed by the property".into(),
            "after the unwinding of a dynamic solver's query its state is not examined further".into(),
        ]
    }
    fn setup(&self, _tier: Tier) -> Result<(), String> {
        repobin::ensure().map(|_| ())
    }
    fn strategy(&self, tier: Tier) -> BoxedStrategy<FaultCase> {
        let nmax = 8;
        let maxlen = tier.pick(40usize, 80usize);
        let dynamic = (0usize..dynamic::ALL_KINDS.len(), 0u8..FACTORS.len() as u8, vec(dynamic::op_strategy(false), 5..=maxlen))
            .prop_map(|(k, factor, ops)| FaultCase::LibDynamic(DynCase { kind: dynamic::ALL_KINDS[k], factor, ops, groups: 1 }));
        if std::env::var("VERIF_C17_ONLY").as_deref() == Ok("cli") {
            return (problem_case(6, true), 0u8..FAULT_KINDS.len() as u8).prop_map(|(p, k)| FaultCase::Cli(p, k)).boxed();
        }
        let list = (prop_oneof![3 => gen::graph_multi(8), 1 => gen::graph(8)], gen::pres(8), 0u8..3, vec(any::<u16>(), 1..=3), any::<u64>())
            .prop_filter("needs an argument", |(g, _, _, _, _)| g.n >= 1)
            .prop_map(|(g, pres, mode, picks, c)| FaultCase::LibList(crate::checks::multi::MultiCase { gc: GraphCase { g, pres }, mode, picks, choice: (c, 0) }));
        prop_oneof![
            50 => problem_case(nmax, false).prop_map(FaultCase::Lib),
            8 => list,
            25 => dynamic,
            20 => (problem_case(7, false), 0u8..FAULT_KINDS.len() as u8).prop_map(|(p, k)| FaultCase::Proc(p, k)),
            5 => (problem_case(6, true), 0u8..FAULT_KINDS.len() as u8).prop_map(|(p, k)| FaultCase::Cli(p, k)),
        ]
        .boxed()
    }
    fn n_cases(&self, tier: Tier) -> u32 {
        tier.pick(12_000, 300_000)
    }
    fn run(&self, case: &FaultCase, rec: &mut Rec) -> CheckResult {
        match case {
            FaultCase::Lib(pc) => self.lib(pc, rec),
            FaultCase::LibList(mc) => self.lib_list(mc, rec),
            FaultCase::LibDynamic(dc) => self.lib_dynamic(dc, rec),
            FaultCase::Proc(pc, k) => self.proc(pc, *k, rec),
            FaultCase::Cli(pc, k) => self.cli(pc, *k, rec),
        }
    }
}

#[allow(dead_code)]
fn _unused(_: DynKind) {}
