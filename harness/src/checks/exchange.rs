//! C16: the exchange with an external SAT solver is well-formed, returns whatever the reply
//! volume, and replies are interpreted faithfully.

use crate::build::{build, Built};
use crate::checks::statics::enc_feasible;
use crate::engine::{CheckResult, Failure, Inconclusive, Prop, Rec, Tier};
use crate::extsat::{with_watchdog, FakeSat, Watched};
use crate::gen::{self, idx, AbsGraph, GraphCase, Pres};
use crate::oracle::{self, Fams, Sem, ALL_SEMS, G};
use crate::queries::{encodings_for, kind_for, LabelMap, SolverObj, Q};
use crate::satwrap::{self, Shared};
use crate::util::{guard, mask_to_vec, masks_to_vecs};
use crustabri::aa::AAFramework;
use crustabri::sat::{Literal, SatSolver, SolvingResult};
use crustabri::utils::LabelType;
use proptest::collection::vec;
use proptest::prelude::*;
use serde::{Deserialize, Serialize};
use serde_json::{json, Value};
use std::sync::Arc;

#[derive(Clone, Debug, PartialEq, Eq, Hash, Serialize, Deserialize)]
pub struct Knobs {
    pub comments_before: u16,
    pub comments_between: u16,
    pub comments_after: u16,
    pub comment_len: u8,
    pub v_width: u8,
    pub io_order: u8,
    pub crlf: bool,
    /// KiB of diagnostics the solver prints on stderr, and when (0 before reading, 1 before the reply, 2 after it)
    #[serde(default)]
    pub stderr_kib: u16,
    #[serde(default)]
    pub stderr_when: u8,
}

pub fn io_name(k: u8) -> &'static str {
    ["read_first", "write_first", "interleaved", "echo"][k as usize % 4]
}

impl Knobs {
    pub fn cfg(&self) -> Value {
        json!({
            "comments_before": self.comments_before,
            "comments_between": self.comments_between,
            "comments_after": self.comments_after,
            "comment_len": self.comment_len.max(2),
            "v_width": self.v_width,
            "io_order": io_name(self.io_order),
            "crlf": self.crlf,
            "stderr_bytes": self.stderr_kib as usize * 1024,
            "stderr_when": self.stderr_when % 3,
        })
    }
    pub fn reply_padding(&self) -> usize {
        (self.comments_before as usize + self.comments_between as usize + self.comments_after as usize)
            * (self.comment_len.max(2) as usize + 1)
    }
}

pub fn knobs() -> BoxedStrategy<Knobs> {
    let count = prop_oneof![
        6 => Just(0u16),
        3 => 0u16..20,
        2 => 200u16..1200,
        1 => 1200u16..4000,
    ];
    let noise = prop_oneof![16 => Just(0u16), 2 => 1u16..48, 1 => 65u16..260];
    (count.clone(), prop_oneof![4 => Just(0u16), 1 => 0u16..2000], prop_oneof![4 => Just(0u16), 1 => 0u16..2000], 2u8..200, 0u8..40, 0u8..4, any::<bool>(), (noise, 0u8..3))
        .prop_map(|(b, m, a, l, w, o, crlf, (stderr_kib, stderr_when))| Knobs {
            comments_before: b,
            comments_between: m,
            comments_after: a,
            comment_len: l,
            v_width: w,
            io_order: o,
            crlf,
            stderr_kib,
            stderr_when,
        })
        .boxed()
}

#[derive(Clone, Debug, Serialize, Deserialize)]
pub enum ExCase {
    /// One argumentation query through ExternalSatSolver(fake_sat).
    Query { gc: GraphCase, sem: Sem, q: Q, enc_pick: u8, arg: u16, cert: bool, knobs: Knobs },
    /// A small CNF with a generated reply replayed verbatim.
    Reply { clauses: Vec<Vec<i8>>, assumptions: Vec<i8>, reply: Vec<ReplyLine>, crlf: bool, final_newline: bool },
    /// SE-ST on a long chain so that the model itself exceeds the pipe capacity.
    BigModel { n: u32, v_width: u8, io_order: u8, comments_before: u16, comment_len: u8 },
    /// A satisfiable CNF whose DIMACS text is within a few KB of the 64 KiB pipe capacity (below and above),
    /// solved under 0-700 assumptions, with a solver that prints up to 200 KB before it reads its input or
    /// while reading it: the region where "small enough to write inline" decisions live.
    NearPipe { delta: i16, n_assumptions: u16, banner_kib: u8, io_order: u8, wide: bool },
}

#[derive(Clone, Debug, PartialEq, Eq, Hash, Serialize, Deserialize)]
pub enum ReplyLine {
    Sat,
    Unsat,
    UnknownStatus,
    /// value line with these tokens
    V(Vec<i16>),
    /// value line carrying a non numeric token
    VBad,
    /// value line carrying one of several malformed tokens (a literal cut after its sign, doubled or
    /// trailing signs, decimal point, hexadecimal, full-width digit)
    VBadTok(u8),
    /// value line with these numeric tokens followed by one malformed token (e.g. after the terminating 0)
    VTail(Vec<i16>, u8),
    Comment(u8),
    BareC,
    Empty,
    Garbage,
    /// a line that resembles a status / value / comment line without being one
    Stray(u8),
}

const VBAD: [&str; 9] = ["v -1 2 -", "v 1 - 0", "v 1 -- 0", "v 1 --2 0", "v 1 2- 0", "v 1 1.0 0", "v 1 0x2 0", "v 1 \u{ff12} 0", "v -"];

const STRAY: [&str; 9] = ["v1 -2 0", "version 2", "v0", "vv 1 0", "sSATISFIABLE", "s satisfiable", "o 12", "v1", "s SATISFIABLE!"];

fn reply_text(lines: &[ReplyLine], crlf: bool, final_newline: bool) -> String {
    let nl = if crlf { "\r\n" } else { "\n" };
    let mut out: Vec<String> = vec![];
    for l in lines {
        out.push(match l {
            ReplyLine::Sat => "s SATISFIABLE".into(),
            ReplyLine::Unsat => "s UNSATISFIABLE".into(),
            ReplyLine::UnknownStatus => "s UNKNOWN".into(),
            ReplyLine::V(t) => {
                let mut s = String::from("v");
                for x in t {
                    s.push(' ');
                    s.push_str(&x.to_string());
                }
                s
            }
            ReplyLine::VBad => "v 1 x2 0".into(),
            ReplyLine::VBadTok(k) => VBAD[*k as usize % VBAD.len()].into(),
            ReplyLine::VTail(t, k) => {
                let mut s = String::from("v");
                for x in t {
                    s.push(' ');
                    s.push_str(&x.to_string());
                }
                s.push(' ');
                s.push_str(["foo", "-", "0x0", "c", "s", "v"][*k as usize % 6]);
                s
            }
            ReplyLine::Comment(k) => format!("c {}", "comment ".repeat(*k as usize % 5)),
            ReplyLine::BareC => "c".into(),
            ReplyLine::Empty => "".into(),
            ReplyLine::Garbage => "solver banner without comment prefix".into(),
            ReplyLine::Stray(k) => STRAY[*k as usize % STRAY.len()].into(),
        });
    }
    let mut s = out.join(nl);
    if final_newline && !out.is_empty() {
        s.push_str(nl);
    }
    s
}

#[derive(Debug, PartialEq)]
pub enum RefReply {
    /// satisfiable with this (complete over 1..=nvars) model
    Sat(Vec<bool>),
    Unsat,
    /// not a verdict: must be reported as undecided or abort
    Invalid(&'static str),
    /// the output format does not settle it: any behaviour but a *different* verdict... is tolerated
    Unspecified(&'static str),
}

/// Reference interpretation of a SAT-competition style reply for an instance over `nvars` variables.
pub fn ref_reply(lines: &[ReplyLine], nvars: usize) -> RefReply {
    let mut status: Option<&ReplyLine> = None;
    let mut n_status = 0;
    let mut vals: Vec<Option<bool>> = vec![None; nvars + 1];
    let mut zeros = 0;
    let mut after_zero = false;
    let mut v_seen = false;
    let mut v_before_s = false;
    let mut conflict = false;
    for l in lines {
        match l {
            ReplyLine::Sat | ReplyLine::Unsat | ReplyLine::UnknownStatus => {
                n_status += 1;
                status = Some(l);
            }
            ReplyLine::V(toks) => {
                v_seen = true;
                if n_status == 0 {
                    v_before_s = true;
                }
                for t in toks {
                    if *t == 0 {
                        zeros += 1;
                    } else {
                        if zeros > 0 {
                            after_zero = true;
                        }
                        let v = t.unsigned_abs() as usize;
                        if v > nvars {
                            return RefReply::Invalid("literal out of range");
                        }
                        if vals[v].is_some() && vals[v] != Some(*t > 0) {
                            conflict = true;
                        }
                        vals[v] = Some(*t > 0);
                    }
                }
            }
            ReplyLine::VBad | ReplyLine::VBadTok(_) | ReplyLine::VTail(..) => return RefReply::Invalid("non-numeric token in value line"),
            ReplyLine::Garbage | ReplyLine::Stray(_) => return RefReply::Invalid("line outside the output format"),
            ReplyLine::Comment(_) | ReplyLine::BareC | ReplyLine::Empty => {}
        }
    }
    if n_status == 0 {
        return RefReply::Invalid("no status line");
    }
    if n_status > 1 {
        return RefReply::Invalid("several status lines");
    }
    match status.unwrap() {
        ReplyLine::UnknownStatus => RefReply::Invalid("s UNKNOWN"),
        ReplyLine::Unsat => {
            if v_seen {
                RefReply::Unspecified("UNSATISFIABLE with value lines")
            } else {
                RefReply::Unsat
            }
        }
        _ => {
            if !v_seen {
                return RefReply::Invalid("SATISFIABLE without a model");
            }
            if zeros == 0 {
                return RefReply::Invalid("value lines not terminated by 0");
            }
            if zeros > 1 {
                return RefReply::Invalid("several terminating zeros");
            }
            if after_zero {
                return RefReply::Unspecified("values after the terminating 0");
            }
            if conflict {
                return RefReply::Unspecified("a variable given both polarities");
            }
            if v_before_s {
                return RefReply::Unspecified("value line before the status line");
            }
            if (1..=nvars).any(|v| vals[v].is_none()) {
                return RefReply::Unspecified("partial model");
            }
            RefReply::Sat((1..=nvars).map(|v| vals[v].unwrap()).collect())
        }
    }
}

fn reply_lines(nvars: usize) -> BoxedStrategy<Vec<ReplyLine>> {
    let nv = nvars.max(1) as i16;
    // a well-formed model split over lines, then optional corruptions
    let model = vec(any::<bool>(), nvars);
    let well = (model, 1usize..=4, vec(0u8..3, 0..=3), any::<bool>()).prop_map(move |(m, width, decor, sat)| {
        let mut lines = vec![];
        for d in &decor {
            lines.push(match d {
                0 => ReplyLine::Comment(*d + 1),
                1 => ReplyLine::BareC,
                _ => ReplyLine::Empty,
            });
        }
        if sat {
            lines.push(ReplyLine::Sat);
            let mut toks: Vec<i16> = m.iter().enumerate().map(|(i, b)| if *b { i as i16 + 1 } else { -(i as i16 + 1) }).collect();
            toks.push(0);
            for ch in toks.chunks(width) {
                lines.push(ReplyLine::V(ch.to_vec()));
            }
        } else {
            lines.push(ReplyLine::Unsat);
        }
        lines
    });
    let corrupt = prop_oneof![
        4 => Just(0u8), // none
        1 => Just(1u8), // drop status
        1 => Just(2u8), // drop final zero
        1 => Just(3u8), // second zero
        1 => Just(4u8), // out of range literal
        3 => Just(5u8), // non numeric or malformed token (nine shapes incl. a literal cut after its sign)
        1 => Just(6u8), // second status
        1 => Just(7u8), // garbage line
        1 => Just(8u8), // status unknown
        1 => Just(9u8), // truncate lines
        1 => Just(10u8), // v before s
        1 => Just(11u8), // drop all v lines
        2 => Just(12u8), // a stray line resembling a format line
        3 => Just(13u8), // more tokens on the SAME value line after the terminating 0
    ];
    (well, corrupt, any::<u16>())
        .prop_map(move |(mut lines, c, r)| {
            let pos = |len: usize| idx(r, len.max(1));
            match c {
                1 => lines.retain(|l| !matches!(l, ReplyLine::Sat | ReplyLine::Unsat)),
                2 => {
                    for l in lines.iter_mut() {
                        if let ReplyLine::V(t) = l {
                            t.retain(|x| *x != 0);
                        }
                    }
                }
                3 => lines.push(ReplyLine::V(vec![0])),
                13 => {
                    // the line that carries the terminating 0 goes on: a second 0, an out-of-range literal, or
                    // a token that is no number at all
                    if let Some(i) = lines.iter().position(|l| matches!(l, ReplyLine::V(t) if t.contains(&0))) {
                        if let ReplyLine::V(t) = lines[i].clone() {
                            lines[i] = match r % 3 {
                                0 => {
                                    let mut t = t;
                                    t.push(0);
                                    ReplyLine::V(t)
                                }
                                1 => {
                                    let mut t = t;
                                    t.push(nv + 1 + (r % 5) as i16);
                                    ReplyLine::V(t)
                                }
                                _ => ReplyLine::VTail(t, (r / 3) as u8),
                            };
                        }
                    }
                }
                4 => lines.push(ReplyLine::V(vec![nv + 1 + (r % 3) as i16])),
                5 => {
                    let p = pos(lines.len() + 1);
                    lines.insert(p, if r % 3 == 0 { ReplyLine::VBad } else { ReplyLine::VBadTok((r / 3) as u8) })
                }
                6 => {
                    let p = pos(lines.len() + 1);
                    lines.insert(p, if r % 2 == 0 { ReplyLine::Sat } else { ReplyLine::Unsat })
                }
                7 => {
                    let p = pos(lines.len() + 1);
                    lines.insert(p, ReplyLine::Garbage)
                }
                8 => {
                    for l in lines.iter_mut() {
                        if matches!(l, ReplyLine::Sat | ReplyLine::Unsat) {
                            *l = ReplyLine::UnknownStatus;
                        }
                    }
                }
                9 => {
                    let p = pos(lines.len());
                    lines.truncate(p)
                }
                10 => {
                    if let Some(i) = lines.iter().position(|l| matches!(l, ReplyLine::Sat)) {
                        let s = lines.remove(i);
                        lines.push(s);
                    }
                }
                11 => lines.retain(|l| !matches!(l, ReplyLine::V(_))),
                12 => {
                    let p = pos(lines.len() + 1);
                    lines.insert(p, ReplyLine::Stray((r >> 3) as u8))
                }
                _ => {}
            }
            lines
        })
        .boxed()
}

pub struct Exchange;

fn lit_s(maxv: i8) -> impl Strategy<Value = i8> {
    (1..=maxv, any::<bool>()).prop_map(|(v, s)| if s { v } else { -v })
}

impl Exchange {
    fn query_generic<T: LabelType>(
        af: &AAFramework<T>,
        labels: &[T],
        g: &G,
        fams: &Fams,
        sem: Sem,
        q: Q,
        enc: crate::queries::Enc,
        a: usize,
        cert: bool,
        fake: &FakeSat,
    ) -> Result<usize, Failure> {
        let lm = LabelMap::new(af, labels);
        let exts = fams.exts(sem);
        let sig = format!("C16/query/{}-{}/{}", q.name(), sem.name(), enc.name());
        let shared = Shared::new(2_000);
        let factory = satwrap::factory_with(&shared, &fake.backend());
        let r = guard(|| {
            let mut s = SolverObj::new(af, kind_for(q, sem), enc, factory);
            match q {
                Q::SE => (None, s.se()),
                Q::DC => {
                    let (b, c) = s.dc(&[&labels[a]], cert);
                    (Some(b), c)
                }
                Q::DS => {
                    let (b, c) = s.ds(&[&labels[a]], cert);
                    (Some(b), c)
                }
            }
        });
        let bad = fake.illformed();
        if !bad.is_empty() {
            let why = if bad[0].contains("variables but variable") {
                "dimacs-header-variable-count-too-small"
            } else if bad[0].contains("clauses but") {
                "dimacs-header-clause-count-wrong"
            } else {
                "ill-formed-dimacs"
            };
            return Err(Failure::new(format!("{}/{}", sig, why), bad.join(" ;; ")));
        }
        let (status, ext) = match r {
            Err(p) => return Err(Failure::new(format!("{}/aborted-with-healthy-backend", sig), p)),
            Ok(x) => x,
        };
        let bit = 1u32 << a;
        match q {
            Q::SE => match ext {
                None => {
                    if !exts.is_empty() {
                        return Err(Failure::new(format!("{}/wrong-answer", sig), "no extension reported"));
                    }
                }
                Some(e) => {
                    let m = lm.mask(&e).map_err(|m| Failure::new(format!("{}/wrong-answer", sig), m))?;
                    if !exts.contains(&m) {
                        return Err(Failure::new(
                            format!("{}/wrong-answer", sig),
                            format!("returned {:?} reference {:?}", mask_to_vec(m), masks_to_vecs(&exts)),
                        ));
                    }
                }
            },
            _ => {
                let expected = if q == Q::DC { oracle::dc(&exts, bit) } else { oracle::ds(&exts, bit) };
                if status != Some(expected) {
                    return Err(Failure::new(
                        format!("{}/wrong-answer", sig),
                        format!("argument {} got {:?} expected {}", a, status, expected),
                    ));
                }
                if let Some(c) = ext {
                    let fam = if q == Q::DC && sem == Sem::PR { fams.co.clone() } else { exts.clone() };
                    let m = lm.mask(&c).map_err(|m| Failure::new(format!("{}/wrong-answer", sig), m))?;
                    if !fam.contains(&m) || ((q == Q::DC) != (m & bit != 0)) {
                        return Err(Failure::new(format!("{}/wrong-answer", sig), format!("certificate {:?}", mask_to_vec(m))));
                    }
                }
            }
        }
        let _ = g;
        Ok(shared.n_calls())
    }
}

fn run_watched(fake: &Arc<FakeSat>, secs: u64, f: impl FnOnce() -> Result<Value, Failure> + Send + 'static) -> Result<Value, Failure> {
    match with_watchdog(fake, secs, f) {
        Watched::Done(r) => r,
        Watched::Deadlock(m) => Err(Failure::new("C16/call-does-not-return/child-blocked-on-full-output-pipe", m).unshrinkable()),
        Watched::Timeout(m) => std::panic::panic_any(Inconclusive(format!("external call watchdog: {}", m))),
    }
}

impl Prop for Exchange {
    type Case = ExCase;
    fn id(&self) -> &'static str {
        "C16"
    }
    fn rule(&self) -> String {
        "Three case kinds. Query: one argumentation problem (all 21, every selectable encoder, with/without certificate) on a generated framework of <=7 arguments run through ExternalSatSolver(fake_sat); fake_sat validates every DIMACS text strictly (header V >= every variable incl. assumption units, exact clause count, 0-terminated) and shapes its reply by generated knobs: 0-4000 comment lines of 2-200 bytes before/between/after (20 B to ~1 MiB, both sides of the 64 KiB pipe), 1..all literals per v line, read-first / write-first / chunk-interleaved / echo-while-reading I/O, CRLF; the answer must equal the brute-force answer. Reply: a small CNF whose reply is generated from a reply grammar (well-formed, or corrupted: missing/double status, missing/double terminator, out-of-range or non-numeric literal, stray line incl. look-alikes such as `v1 -2 0`, `version 2`, `s satisfiable`, s UNKNOWN, truncation, no model) and replayed verbatim; an independent reference reply parser decides Sat(model)/Unsat/Invalid/Unspecified and the solver object must return exactly that model / Unsatisfiable / (Unknown or abort). BigModel: SE-ST on a chain of 8k-40k (thorough 60k) arguments (DIMACS text from 0.3 to over 1.5 MiB) so that the instance and the v lines each exceed 64 KiB, with a banner of up to 600 KB printed before reading or comments echoed while reading (both pipes full at once). Every external interaction runs under a 30 s watchdog that consults the child's own progress log. Non-trivial: reply >64 KiB, or a reply classified Invalid, or a query needing >=2 external calls; distinct = case.".into()
    }
    fn assumptions(&self) -> Vec<String> {
        vec![
            "fake_sat's DIMACS validator and the reference reply parser (SAT competition output format)".into(),
            "the child's side of the interleaving is owned by the harness; kernel scheduling is not enumerated".into(),
            "a watchdog expiry is a violation only when the child's log shows it blocked writing >64 KiB; otherwise inconclusive".into(),
        ]
    }
    fn strategy(&self, tier: Tier) -> BoxedStrategy<ExCase> {
        let nmax = 7;
        let query = (gen::graph(nmax), gen::pres(nmax), 0usize..7, 0u8..3, any::<u8>(), any::<u16>(), any::<bool>(), knobs())
            .prop_filter("needs an argument for DC/DS", |(g, _, _, q, _, _, _, _)| *q == 0 || g.n >= 1)
            .prop_map(|(g, pres, s, q, enc_pick, arg, cert, knobs)| ExCase::Query {
                gc: GraphCase { g, pres },
                sem: ALL_SEMS[s],
                q: [Q::SE, Q::DC, Q::DS][q as usize],
                enc_pick,
                arg,
                cert,
                knobs,
            });
        let reply = (1usize..=5)
            .prop_flat_map(|nv| {
                (
                    vec(vec(lit_s(nv as i8), 1..=3), 0..=4),
                    vec(lit_s(nv as i8), 0..=2),
                    reply_lines(nv),
                    any::<bool>(),
                    prop_oneof![5 => Just(true), 1 => Just(false)],
                    Just(nv),
                )
            })
            .prop_map(|(mut clauses, assumptions, reply, crlf, final_newline, nv)| {
                // make sure the variable count is exactly nv
                clauses.push(vec![nv as i8, -(nv as i8)]);
                ExCase::Reply { clauses, assumptions, reply, crlf, final_newline }
            });
        let big_hi = tier.pick(40_000u32, 60_000u32);
        let big = (8_000u32..big_hi, 0u8..40, 0u8..4, prop_oneof![1 => Just(0u16), 2 => 400u16..3000], 20u8..200)
            .prop_map(|(n, v_width, io_order, comments_before, comment_len)| ExCase::BigModel { n, v_width, io_order, comments_before, comment_len });
        let near = (-4_000i16..4_000, prop_oneof![1 => Just(0u16), 1 => 1u16..100, 3 => 100u16..700], prop_oneof![1 => Just(0u8), 1 => 1u8..60, 3 => 66u8..200], 0u8..4, any::<bool>())
            .prop_map(|(delta, n_assumptions, banner_kib, io_order, wide)| ExCase::NearPipe { delta, n_assumptions, banner_kib, io_order, wide });
        prop_oneof![
            60 => query,
            38 => reply,
            2 => big,
            5 => near,
        ]
        .boxed()
    }
    fn n_cases(&self, tier: Tier) -> u32 {
        tier.pick(8_000, 200_000)
    }
    fn run(&self, case: &ExCase, rec: &mut Rec) -> CheckResult {
        let fake = FakeSat::get();
        match case {
            ExCase::Query { gc, sem, q, enc_pick, arg, cert, knobs } => {
                rec.class("kind-query");
                let encs = encodings_for(*q, *sem);
                let enc = encs[*enc_pick as usize % encs.len()];
                if !enc_feasible(enc, &gc.g, &gc.pres) || gc.g.n == 0 && *q != Q::SE {
                    return Ok(());
                }
                // GR-like problems make no SAT call at all; keep a few, they cost nothing
                fake.configure(knobs.cfg());
                let (gc2, sem, q, cert, arg) = (gc.clone(), *sem, *q, *cert, *arg);
                let fake2 = Arc::clone(&fake);
                rec.eval();
                let v = run_watched(&fake, 20, move || {
                    let g = G::new(gc2.g.n, &gc2.g.att_usize());
                    let fams = Fams::new(&g);
                    let a = idx(arg, g.n.max(1));
                    let calls = match build(&gc2) {
                        Built::U(af, labels) => Exchange::query_generic(&af, &labels, &g, &fams, sem, q, enc, a, cert, &fake2),
                        Built::S(af, labels) => Exchange::query_generic(&af, &labels, &g, &fams, sem, q, enc, a, cert, &fake2),
                        Built::C(af, labels) => Exchange::query_generic(&af, &labels, &g, &fams, sem, q, enc, a, cert, &fake2),
                    }?;
                    Ok(json!(calls))
                })?;
                let calls = v.as_u64().unwrap_or(0);
                rec.count("external-sat-calls", calls);
                let log = fake.read_log();
                let max_reply = log.iter().filter_map(|e| e["reply_bytes"].as_u64()).max().unwrap_or(0);
                if max_reply > 65536 {
                    rec.class("reply-above-pipe-capacity");
                }
                if calls >= 1 {
                    rec.class(&format!("io-{}", io_name(knobs.io_order)));
                }
                if (max_reply > 65536 || calls >= 2) && rec.nontrivial(&serde_json::to_string(case).unwrap()) {
                    rec.sample_sized(max_reply as usize, || {
                        json!({"case": case, "external_calls": calls, "largest_reply_bytes": max_reply})
                    });
                }
                Ok(())
            }
            ExCase::Reply { clauses, assumptions, reply, crlf, final_newline } => {
                rec.class("kind-reply");
                rec.eval();
                let nvars = clauses
                    .iter()
                    .flatten()
                    .chain(assumptions.iter())
                    .map(|l| l.unsigned_abs() as usize)
                    .max()
                    .unwrap_or(0);
                let text = reply_text(reply, *crlf, *final_newline);
                let expected = ref_reply(reply, nvars);
                fake.configure(json!({"faults": {"0": "verbatim"}, "verbatim_all": text, "strict": false}));
                let (cl, asu) = (clauses.clone(), assumptions.clone());
                let fake2 = Arc::clone(&fake);
                let got = run_watched(&fake, 20, move || {
                    let r = guard(|| {
                        let mut s = fake2.backend()();
                        for c in &cl {
                            s.add_clause(c.iter().map(|l| Literal::from(*l as isize)).collect());
                        }
                        let al: Vec<Literal> = asu.iter().map(|l| Literal::from(*l as isize)).collect();
                        match s.solve_under_assumptions(&al) {
                            SolvingResult::Satisfiable(m) => {
                                let vals: Vec<Option<bool>> = m.iter().map(|(_, v)| v).collect();
                                json!({"r": "sat", "model": vals})
                            }
                            SolvingResult::Unsatisfiable => json!({"r": "unsat"}),
                            SolvingResult::Unknown => json!({"r": "unknown"}),
                        }
                    });
                    Ok(match r {
                        Ok(v) => v,
                        Err(p) => json!({"r": "abort", "msg": p}),
                    })
                })?;
                let kind = got["r"].as_str().unwrap_or("");
                let undecided = kind == "unknown" || kind == "abort";
                let describe = || format!("reply {:?} -> {} (reference: {:?})", text, got, expected);
                match &expected {
                    RefReply::Sat(model) => {
                        rec.class("reply-wellformed-sat");
                        if kind != "sat" {
                            return Err(Failure::new("C16/reply/well-formed-model-not-reported", describe()));
                        }
                        let vals: Vec<Option<bool>> = got["model"].as_array().unwrap().iter().map(|v| v.as_bool()).collect();
                        let want: Vec<Option<bool>> = model.iter().map(|b| Some(*b)).collect();
                        if vals != want {
                            return Err(Failure::new("C16/reply/model-differs-from-printed-model", describe()));
                        }
                    }
                    RefReply::Unsat => {
                        rec.class("reply-wellformed-unsat");
                        if kind != "unsat" {
                            return Err(Failure::new("C16/reply/unsatisfiable-not-reported", describe()));
                        }
                    }
                    RefReply::Invalid(why) => {
                        rec.class(&format!("reply-invalid: {}", why));
                        if !undecided {
                            return Err(Failure::new(
                                format!("C16/reply/malformed-reply-reported-as-result/{}", why.replace(' ', "-")),
                                describe(),
                            ));
                        }
                        if rec.nontrivial(&(clauses, assumptions, &text)) {
                            rec.sample(|| json!({"clauses": clauses, "assumptions": assumptions, "reply": text, "reference": format!("{:?}", expected), "observed": got}));
                        }
                    }
                    RefReply::Unspecified(why) => {
                        rec.class(&format!("reply-unspecified: {}", why));
                    }
                }
                Ok(())
            }
            ExCase::NearPipe { delta, n_assumptions, banner_kib, io_order, wide } => {
                rec.class("kind-instance-near-the-pipe-capacity");
                rec.eval();
                // variables 1..=v, clauses (i or i+1) and (i or -(i+2)): satisfied by the all-true assignment,
                // so any set of positive assumptions is consistent
                let v: usize = if *wide { 9_000 } else { 800 };
                let target = (65_536i64 + *delta as i64).max(1_000) as usize;
                let na = (*n_assumptions as usize).min(v - 2);
                let mut clauses: Vec<Vec<isize>> = vec![];
                // same layout as the DIMACS exchange: header, one line per clause, one unit line per assumption
                let mut bytes = format!("p cnf {} {}\n", v, 0).len() + 6;
                let unit_bytes: usize = (1..=na).map(|i| i.to_string().len() + 3).sum();
                let mut i = 1usize;
                while bytes + unit_bytes < target {
                    let a = 1 + (i * 7) % (v - 2);
                    let cl: Vec<isize> = if i % 2 == 0 { vec![a as isize, (a + 1) as isize] } else { vec![a as isize, -((a + 2) as isize)] };
                    bytes += cl.iter().map(|l| l.to_string().len() + 1).sum::<usize>() + 2;
                    clauses.push(cl);
                    i += 1;
                }
                let banner_lines = *banner_kib as usize * 10;
                fake.configure(json!({"io_order": io_name(*io_order), "comments_before": banner_lines, "comment_len": 101, "v_width": 0}));
                rec.class(&format!("near-pipe-{}-assumptions-{}", if *delta < 0 { "below" } else { "above" }, if na == 0 { "none" } else if na < 100 { "<100" } else { "100+" }));
                let fake2 = Arc::clone(&fake);
                let cl2 = clauses.clone();
                let got = run_watched(&fake, 20, move || {
                    let r = guard(|| {
                        let mut s = fake2.backend()();
                        for c in &cl2 {
                            s.add_clause(c.iter().map(|l| Literal::from(*l)).collect());
                        }
                        let al: Vec<Literal> = (1..=na).map(|x| Literal::from(x as isize)).collect();
                        match s.solve_under_assumptions(&al) {
                            SolvingResult::Satisfiable(m) => {
                                let bad = (1..=na).find(|x| m.value_of(*x) != Some(true));
                                json!({"r": "sat", "assumption_not_true": bad})
                            }
                            SolvingResult::Unsatisfiable => json!({"r": "unsat"}),
                            SolvingResult::Unknown => json!({"r": "unknown"}),
                        }
                    });
                    Ok(match r {
                        Ok(v) => v,
                        Err(p) => json!({"r": "abort", "msg": p}),
                    })
                })?;
                let bad = fake.illformed();
                if !bad.is_empty() {
                    return Err(Failure::new("C16/near-pipe/ill-formed-dimacs", bad[0].chars().take(300).collect::<String>()));
                }
                let sent = fake.read_log().iter().filter(|e| e["event"] == "parsed").filter_map(|e| e["bytes"].as_u64()).next_back().unwrap_or(0);
                rec.class(&format!("near-pipe-instance-bytes-{}", if sent <= 65_536 { "<=64KiB" } else { ">64KiB" }));
                if got["r"] != "sat" || !got["assumption_not_true"].is_null() {
                    return Err(Failure::new(
                        "C16/near-pipe/healthy-solver-satisfiable-instance-not-reported-as-such",
                        format!("{} ; instance of {} bytes, {} assumptions, banner {} KiB, io {}", got, sent, na, banner_kib, io_name(*io_order)),
                    ));
                }
                if sent.abs_diff(65_536) < 4_000 && na >= 100 && *banner_kib > 64 && rec.nontrivial(&(delta, n_assumptions, banner_kib, io_order, wide)) {
                    rec.sample(|| json!({"near_pipe": {"instance_bytes": sent, "assumptions": na, "banner_kib": banner_kib, "io_order": io_name(*io_order)}}));
                }
                Ok(())
            }
            ExCase::BigModel { n, v_width, io_order, comments_before, comment_len } => {
                rec.class("kind-big-model");
                rec.eval();
                let n = *n as usize;
                fake.configure(json!({"v_width": v_width, "io_order": io_name(*io_order), "comments_before": comments_before, "comment_len": comment_len}));
                rec.class(&format!("big-io-{}", io_name(*io_order)));
                let fake2 = Arc::clone(&fake);
                run_watched(&fake, 60, move || {
                    // chain 1 -> 2 -> ... -> n : unique stable extension = odd positions
                    let labels: Vec<usize> = (1..=n).collect();
                    let mut af = AAFramework::new_with_argument_set(crustabri::aa::ArgumentSet::new_with_labels(&labels));
                    for i in 1..n {
                        af.new_attack(&i, &(i + 1)).unwrap();
                    }
                    let shared = Shared::new(10);
                    let factory = satwrap::factory_with(&shared, &fake2.backend());
                    let r = guard(|| {
                        let mut s = SolverObj::new(&af, crate::queries::Kind::St, crate::queries::Enc::Stable, factory);
                        s.se().map(|e| e.iter().map(|m| m.label).collect::<Vec<usize>>())
                    });
                    let bad = fake2.illformed();
                    if !bad.is_empty() {
                        return Err(Failure::new("C16/big-model/ill-formed-dimacs", bad[0].chars().take(300).collect::<String>()));
                    }
                    match r {
                        Err(p) => Err(Failure::new("C16/big-model/aborted-with-healthy-backend", p)),
                        Ok(None) => Err(Failure::new("C16/big-model/wrong-answer", "no stable extension reported for a chain")),
                        Ok(Some(mut e)) => {
                            e.sort();
                            let want: Vec<usize> = (1..=n).filter(|i| i % 2 == 1).collect();
                            if e != want {
                                return Err(Failure::new("C16/big-model/wrong-answer", format!("extension of {} members, expected {}", e.len(), want.len())));
                            }
                            Ok(json!(null))
                        }
                    }
                })?;
                let max_reply = fake.read_log().iter().filter_map(|e| e["reply_bytes"].as_u64()).max().unwrap_or(0);
                if max_reply > 65536 {
                    rec.class("reply-above-pipe-capacity");
                    if rec.nontrivial(&serde_json::to_string(case).unwrap()) {
                        rec.sample(|| json!({"case": case, "reply_bytes": max_reply}));
                    }
                }
                Ok(())
            }
        }
    }
}

#[allow(dead_code)]
fn _unused(_: AbsGraph, _: Pres) {}
