//! C10: each generated CNF is validated exactly against the semantics (translation validation).

use crate::build::{build, Built};
use crate::checks::statics::{exp_cost, EXP_LIMIT};
use crate::engine::{CheckResult, Failure, Prop, Rec, Tier};
use crate::gen::{self, GraphCase, Pres};
use crate::oracle::{Fams, G};
use crate::queries::{base_of, encoder, Enc};
use crate::satwrap::{self, Shared};
use crate::util::{guard, mask_to_vec};
use crustabri::aa::AAFramework;
use crustabri::sat::{self, Literal, SatSolver, SolvingResult};
use crustabri::utils::LabelType;
use proptest::prelude::*;
use serde_json::{json, Map, Value};

pub const ENCODERS: [Enc; 7] = [Enc::AuxCf, Enc::AuxAdm, Enc::AuxCo, Enc::ExpCf, Enc::ExpCo, Enc::Hybrid, Enc::Stable];

pub struct Encodings;

/// The framework to validate, and optionally another framework that the SAME encoder object
/// encodes first (the solvers reuse one encoder object for every connected component).
#[derive(Clone, Debug, PartialEq, Eq, Hash, serde::Serialize, serde::Deserialize)]
pub struct EncCase {
    pub gc: GraphCase,
    pub warmup: Option<crate::gen::AbsGraph>,
}

fn family(fams: &Fams, e: Enc) -> Vec<u32> {
    match base_of(e) {
        "cf" => fams.cf.clone(),
        "adm" => fams.adm.clone(),
        "st" => fams.st.clone(),
        _ => fams.co.clone(),
    }
}

/// A framework of 11-48 arguments: too large to probe every subset; membership of a probed set in the
/// intended family is decided polynomially, and the probed sets are the CNF's own models, their
/// one-argument neighbours, the grounded and empty sets, and generated subsets.
#[derive(Clone, Debug, PartialEq, Eq, Hash, serde::Serialize, serde::Deserialize)]
pub struct LargeEnc {
    pub n: usize,
    pub att: Vec<(u16, u16)>,
    /// an argument that receives many attackers
    pub hub_attackers: u8,
    pub via_iccma: bool,
    pub dups: Vec<u16>,
    pub probes: Vec<u64>,
    /// 0: the attack list is taken as it is. 32 or 64: every endpoint is rewritten to
    /// `residue + period * floor` with the residue drawn from a dozen active residues, so that the attackers
    /// and defenders of an argument share residues modulo the period (ids that alias in 32/64-bit masks,
    /// signatures and word-sized tables) and their sums coincide often.
    #[serde(default)]
    pub period: u8,
    /// with a period: the attack list is a pattern over eight residues and every pattern attack is lifted to
    /// all floors through a permutation of the floors (identity, rotation, swap of two floors, reversal): the
    /// attackers of two arguments of one residue then have the same residues on permuted floors - equal
    /// masks modulo the period, equal sizes and, often, equal sums
    #[serde(default)]
    pub lift: bool,
    /// the exponential encoder is run whatever its size (the one fixed case with a product above 2^20)
    #[serde(default)]
    pub force_exp: bool,
}

/// What `check_cnfs` judges: one framework with compact ids 0..n (labels 1..=n), its attacks and adjacency
struct CnfIn<'a> {
    n: usize,
    att: &'a [(usize, usize)],
    adj: &'a crate::checks::metamorphic::Adj,
    af: &'a AAFramework<usize>,
    skip_exp: bool,
    probes: &'a [u64],
    /// arguments whose membership is flipped in the CNF's own model to obtain neighbouring probe sets
    focus: Vec<usize>,
    /// fewer probe sets per CNF (frameworks above 2^16 arguments: every probe costs n assumptions)
    light: bool,
}

/// A framework of more than 2^16 arguments handed to the encoders directly (no solver renumbers it): a motif of
/// a few arguments whose ids sit just below and just above multiples of 2^16, all other arguments isolated.
#[derive(Clone, Debug, PartialEq, Eq, Hash, serde::Serialize, serde::Deserialize)]
pub struct HugeEnc {
    /// node j of the motif has id floor * 65536 + off (duplicates are merged)
    pub nodes: Vec<(u8, u16)>,
    /// attacks between motif nodes (indices mapped monotonically onto the nodes)
    pub att: Vec<(u16, u16)>,
    /// isolated arguments after the highest motif id
    pub tail: u16,
    pub via_iccma: bool,
    pub probes: Vec<u64>,
}

#[derive(Clone, Debug, serde::Serialize, serde::Deserialize)]
pub enum EncAny {
    Small(EncCase),
    Large(LargeEnc),
    Huge(HugeEnc),
}

pub fn huge_strategy() -> BoxedStrategy<HugeEnc> {
    use proptest::collection::vec;
    let off = prop_oneof![3 => 0u16..6, 2 => 65530u16..=65535, 1 => any::<u16>()];
    (vec((0u8..=2, off), 4..=10), vec((any::<u16>(), any::<u16>()), 4..=26), 0u16..40, any::<bool>(), vec(any::<u64>(), 2..=3))
        .prop_map(|(nodes, att, tail, via_iccma, probes)| HugeEnc { nodes, att, tail, via_iccma, probes })
        .boxed()
}

fn large_graph(c: &LargeEnc) -> crate::checks::metamorphic::BigGraph {
    let n = c.n;
    let mut att: Vec<(u16, u16)> = c.att.iter().map(|(a, b)| ((*a as usize % n) as u16, (*b as usize % n) as u16)).collect();
    if c.period >= 2 && n >= 2 * c.period as usize {
        let p = c.period as usize;
        let floors = n / p;
        // a dozen active residues chosen by the first probe word
        let w = c.probes.first().copied().unwrap_or(0x9E37_79B9);
        let active: Vec<usize> = (0..12).map(|k| ((w >> (5 * k)) as usize + 7 * k) % p).collect();
        let place = |x: u16| -> u16 {
            let x = x as usize;
            (active[x % active.len()] + p * ((x / active.len()) % floors)) as u16
        };
        att = c.att.iter().map(|(a, b)| (place(*a), place(*b))).collect();
        if c.lift {
            att.clear();
            let r = 8usize;
            for (a, b) in &c.att {
                let (a, b) = (*a as usize, *b as usize);
                let (ra, rb) = (active[a % r], active[b % r]);
                let kind = (a / r) % 4;
                for f in 0..floors {
                    let sf = match kind {
                        0 => f,
                        1 => (f + 1) % floors,
                        2 => match f {
                            0 => 1 % floors,
                            1 => 0,
                            x => x,
                        },
                        _ => floors - 1 - f,
                    };
                    att.push(((ra + p * sf) as u16, (rb + p * f) as u16));
                }
            }
        }
    }
    let mut k_hub = (c.hub_attackers as usize).min(n.saturating_sub(1));
    if c.hub_attackers >= 30 && n >= 70 {
        // a hub of 30+ attackers that stays within reach of the exponential encoder and whose attackers are
        // OPTIONAL: attacker i (1..=k) is, for most i, in a mutual attack with its own partner k+i, and no
        // generated attack touches attackers or partners; the hub attacks two of the remaining arguments
        k_hub = k_hub.min((n - 4) / 2);
        let rest = n - 2 * k_hub - 1;
        // few generated attacks among the remaining arguments, or their in-degrees put the exponential
        // encoding out of reach again
        att.truncate(rest + rest / 2);
        for (a, b) in att.iter_mut() {
            if (1..=2 * k_hub).contains(&(*b as usize)) {
                *b = (2 * k_hub + 1 + (*b as usize) % rest) as u16;
            }
            if (1..=2 * k_hub).contains(&(*a as usize)) {
                *a = (2 * k_hub + 1 + (*a as usize) % rest) as u16;
            }
        }
        let w = c.probes.first().copied().unwrap_or(0x5555_5555_5555_5555);
        for i in 1..=k_hub {
            // half of the cases: every attacker is optional; otherwise three in four
            if w & 1 == 1 || (w >> (i % 64)) & 3 != 0 {
                att.push((i as u16, (k_hub + i) as u16));
                att.push(((k_hub + i) as u16, i as u16));
            }
        }
        att.push((0, (n - 1) as u16));
        att.push((0, (2 * k_hub + 1) as u16));
    }
    for k in 0..k_hub {
        att.push((((k + 1) % n) as u16, 0));
    }
    if c.via_iccma {
        for d in &c.dups {
            if !att.is_empty() {
                let x = att[crate::gen::idx(*d, att.len())];
                att.push(x);
            }
        }
    }
    crate::checks::metamorphic::BigGraph { n, att }
}

impl Encodings {
    fn run_large(&self, c: &LargeEnc, rec: &mut Rec) -> CheckResult {
        use crate::checks::metamorphic::Adj;
        use crustabri::io::{Iccma23Reader, InstanceReader};
        let g = large_graph(c);
        let n = g.n;
        let adj = Adj::new(&g);
        let af: AAFramework<usize> = if c.via_iccma {
            let mut t = format!("p af {}\n", n);
            for (a, b) in &g.att {
                t.push_str(&format!("{} {}\n", a + 1, b + 1));
            }
            Iccma23Reader::default().read(&mut t.as_bytes()).map_err(|e| Failure::new("C10/large/reader-rejected-generated-file", e.to_string()))?
        } else {
            let labels: Vec<usize> = (1..=n).collect();
            let mut af = AAFramework::new_with_argument_set(crustabri::aa::ArgumentSet::new_with_labels(&labels));
            for (a, b) in &g.att {
                af.new_attack(&(*a as usize + 1), &(*b as usize + 1)).unwrap();
            }
            af
        };
        // size of the exp complete encoding (with multiplicities when built by the reader)
        let exp_clauses: usize = {
            let mut mult = vec![vec![0usize; n]; n];
            for (a, b) in &g.att {
                mult[*b as usize][*a as usize] += 1;
            }
            if !c.via_iccma {
                mult.iter_mut().for_each(|r| r.iter_mut().for_each(|x| *x = (*x).min(1)));
            }
            (0..n)
                .map(|x| {
                    let mut p = 1usize;
                    for b in 0..n {
                        for _ in 0..mult[x][b] {
                            p = p.saturating_mul(mult[b].iter().sum::<usize>().max(1));
                        }
                    }
                    p
                })
                .fold(0usize, |a, b| a.saturating_add(b))
        };
        rec.class(&format!("large-n-{:02}+", (n / 10) * 10));
        if c.hub_attackers >= 30 && n >= 70 {
            rec.class(&format!("large-with-optional-hub-attackers-exp-{}", if exp_clauses > EXP_LIMIT { "skipped" } else { "encoded" }));
        }
        let att_us: Vec<(usize, usize)> = g.att.iter().map(|(a, b)| (*a as usize, *b as usize)).collect();
        self.check_cnfs(&CnfIn { n, att: &att_us, adj: &adj, af: &af, skip_exp: exp_clauses > EXP_LIMIT && !c.force_exp, probes: &c.probes, focus: (0..n.min(40)).collect(), light: false }, rec)?;
        if rec.nontrivial(c) {
            rec.sample(|| json!({"large_framework_arguments": n, "attacks": g.att.len(), "via_iccma_reader": c.via_iccma, "probed_sets_per_cnf": 2 + n.min(40) + 1 + c.probes.len()}));
        }
        Ok(())
    }

    /// The CNF of every encoder for one framework of any size, judged polynomially and by SAT (section C10, large cases)
    fn check_cnfs(&self, inp: &CnfIn, rec: &mut Rec) -> CheckResult {
        let (n, adj, af) = (inp.n, inp.adj, inp.af);
        struct G {
            att: Vec<(usize, usize)>,
        }
        let g = G { att: inp.att.to_vec() };
        struct C<'a> {
            probes: &'a [u64],
        }
        let c = C { probes: inp.probes };
        for enc in ENCODERS {
            if enc == Enc::ExpCo && inp.skip_exp {
                continue;
            }
            for with_range in [false, true] {
                if with_range && enc == Enc::Stable {
                    continue;
                }
                let sig = format!("C10/large/{}/{}", enc.name(), if with_range { "with-range" } else { "plain" });
                let e = encoder::<usize>(enc);
                if c.probes.first().map_or(false, |w| w % 2 == 0) {
                    // the solvers keep one encoder object for all components: the same object first encodes a
                    // small dense framework (a symmetric clique on 6 arguments, auxiliary branch of the hybrid encoder)
                    let labels: Vec<usize> = (1..=6).collect();
                    let mut waf = AAFramework::new_with_argument_set(crustabri::aa::ArgumentSet::new_with_labels(&labels));
                    for a in 1..=6usize {
                        for b in 1..=6usize {
                            if a != b {
                                waf.new_attack(&a, &b).unwrap();
                            }
                        }
                    }
                    let mut throwaway = sat::default_solver();
                    guard(|| {
                        if with_range {
                            e.encode_constraints_and_range(&waf, throwaway.as_mut())
                        } else {
                            e.encode_constraints(&waf, throwaway.as_mut())
                        }
                    })
                    .map_err(|p| Failure::new(format!("{}/encoder-panic-on-warm-up", sig), p))?;
                    rec.class("large-after-warm-up-on-the-same-encoder-object");
                }
                let shared = Shared::recording(usize::MAX);
                let mut rec_solver = satwrap::wrap(&shared, sat::default_solver());
                guard(|| {
                    if with_range {
                        e.encode_constraints_and_range(&af, &mut rec_solver)
                    } else {
                        e.encode_constraints(&af, &mut rec_solver)
                    }
                })
                .map_err(|p| Failure::new(format!("{}/encoder-panic", sig), p))?;
                let nv = rec_solver.n_vars();
                let clauses = shared.instances.borrow()[0].clauses.clone();
                rec.count("programs", 1);
                rec.eval();
                let maxv = clauses.iter().flatten().map(|l| l.unsigned_abs()).max().unwrap_or(0);
                if maxv > nv {
                    return Err(Failure::new(format!("{}/variable-above-n_vars", sig), format!("max var {} n_vars {}", maxv, nv)));
                }
                let lits: Vec<isize> = (0..n).map(|i| isize::from(e.arg_to_lit(af.argument_set().get_argument(&(i + 1)).unwrap()))).collect();
                let mut sorted = lits.clone();
                sorted.sort();
                sorted.dedup();
                if sorted.len() != n || lits.iter().any(|l| *l <= 0) {
                    return Err(Failure::new(format!("{}/arg-literals-collide-or-not-positive", sig), format!("{:?}", lits)));
                }
                let range_lit = |i: usize| -> isize { (e.first_range_var(n) + af.argument_set().get_argument(&(i + 1)).unwrap().id()) as isize };
                let lit_set: std::collections::HashSet<isize> = lits.iter().copied().collect();
                if with_range && (0..n).any(|i| lit_set.contains(&range_lit(i)) || range_lit(i) as usize > nv) {
                    return Err(Failure::new(format!("{}/range-variable-collides-or-above-n_vars", sig), ""));
                }
                let in_family = |s: &[bool]| -> bool {
                    match base_of(enc) {
                        "cf" => adj.conflict_free(s),
                        "adm" => adj.admissible(s),
                        "st" => adj.stable(s),
                        _ => adj.complete(s),
                    }
                };
                let mut probe = sat::default_solver();
                probe.reserve(nv);
                for cl in &clauses {
                    probe.add_clause(cl.iter().map(|l| Literal::from(*l)).collect());
                }
                // (1) exact, by SAT: is there a model of the CNF whose projection is NOT in the family? The
                // defining conditions of the family are negated over fresh variables in a copy of the CNF.
                {
                    let mut hunt = sat::default_solver();
                    hunt.reserve(nv);
                    for cl in &clauses {
                        hunt.add_clause(cl.iter().map(|l| Literal::from(*l)).collect());
                    }
                    let mut next = nv as isize;
                    let mut fresh = || {
                        next += 1;
                        next
                    };
                    let attackers: Vec<Vec<usize>> = {
                        let mut v = vec![vec![]; n];
                        for (a, b) in &g.att {
                            if !v[*b as usize].contains(&(*a as usize)) {
                                v[*b as usize].push(*a as usize);
                            }
                        }
                        v
                    };
                    // p[a] <-> some attacker of a is in the set
                    let p: Vec<isize> = (0..n).map(|_| fresh()).collect();
                    for a in 0..n {
                        let mut long = vec![Literal::from(-p[a])];
                        for b in &attackers[a] {
                            long.push(Literal::from(lits[*b]));
                            hunt.add_clause(vec![Literal::from(-lits[*b]), Literal::from(p[a])]);
                        }
                        hunt.add_clause(long);
                    }
                    let mut violations: Vec<Literal> = vec![];
                    let base = base_of(enc);
                    // light mode: a violation variable per isolated argument makes CaDiCaL learn 10^5 units one by
                    // one, each after re-deciding 10^5 free variables (minutes); the hunt is exact on the motif, its
                    // id neighbours and 64 spread-out isolated arguments
                    let hunted: Vec<usize> = if inp.light {
                        let mut v: Vec<usize> = inp.focus.iter().flat_map(|i| [i.saturating_sub(1), *i, (*i + 1).min(n - 1)]).collect();
                        v.extend((0..64).map(|k| k * n / 64));
                        v.sort();
                        v.dedup();
                        v
                    } else {
                        (0..n).collect()
                    };
                    for a in hunted {
                        // a member that is attacked by the set
                        let v = fresh();
                        hunt.add_clause(vec![Literal::from(-v), Literal::from(lits[a])]);
                        hunt.add_clause(vec![Literal::from(-v), Literal::from(p[a])]);
                        violations.push(Literal::from(v));
                        if base == "adm" || base == "co" {
                            // a member with an attacker that the set does not attack
                            for b in &attackers[a] {
                                let v = fresh();
                                hunt.add_clause(vec![Literal::from(-v), Literal::from(lits[a])]);
                                hunt.add_clause(vec![Literal::from(-v), Literal::from(-p[*b])]);
                                violations.push(Literal::from(v));
                            }
                        }
                        if base == "co" {
                            // a non-member all of whose attackers are attacked
                            let v = fresh();
                            hunt.add_clause(vec![Literal::from(-v), Literal::from(-lits[a])]);
                            for b in &attackers[a] {
                                hunt.add_clause(vec![Literal::from(-v), Literal::from(p[*b])]);
                            }
                            violations.push(Literal::from(v));
                        }
                        if base == "st" {
                            // a non-member that is not attacked
                            let v = fresh();
                            hunt.add_clause(vec![Literal::from(-v), Literal::from(-lits[a])]);
                            hunt.add_clause(vec![Literal::from(-v), Literal::from(-p[a])]);
                            violations.push(Literal::from(v));
                        }
                        if with_range {
                            // a range variable that is true although the argument is neither a member nor
                            // attacked (the converse is not demanded: the encoders only need r -> in range,
                            // the solvers maximise the true range variables)
                            let r = range_lit(a);
                            let v = fresh();
                            hunt.add_clause(vec![Literal::from(-v), Literal::from(r)]);
                            hunt.add_clause(vec![Literal::from(-v), Literal::from(-lits[a])]);
                            hunt.add_clause(vec![Literal::from(-v), Literal::from(-p[a])]);
                            violations.push(Literal::from(v));
                        }
                    }
                    hunt.add_clause(violations);
                    rec.count("exact-searches-for-a-model-outside-the-family", 1);
                    if let SolvingResult::Satisfiable(m) = hunt.solve() {
                        let s0: Vec<bool> = (0..n).map(|i| m.value_of(lits[i] as usize) == Some(true)).collect();
                        let att_by = adj.attacked_by(&s0);
                        let range_wrong = with_range && (0..n).any(|i| m.value_of(range_lit(i) as usize) == Some(true) && !(s0[i] || att_by[i]));
                        if in_family(&s0) && !range_wrong {
                            // the hunt's own encoding claims a violation that the polynomial check does not confirm
                            std::panic::panic_any(crate::engine::Inconclusive(format!("C10 hunt encoding disagrees with the polynomial membership test on {:?}", g.att)));
                        }
                        return Err(Failure::new(
                            format!("{}/{}", sig, if in_family(&s0) { "range-variable-true-outside-range-in-some-model".to_string() } else { format!("cnf-has-model-outside-the-{}-family", base) }),
                            format!("found by exact search: model projection {}{:?}; n {} attacks {:?}", if inp.light { "on the motif " } else { "" }, (0..n).filter(|i| s0[*i] && (!inp.light || inp.focus.contains(i))).collect::<Vec<_>>(), n, g.att),
                        ));
                    }
                }
                // probe sets
                let mut sets: Vec<Vec<bool>> = vec![vec![false; n], adj.grounded()];
                if let SolvingResult::Satisfiable(m) = probe.solve() {
                    let s0: Vec<bool> = (0..n).map(|i| m.value_of(lits[i] as usize) == Some(true)).collect();
                    if !in_family(&s0) {
                        return Err(Failure::new(
                            format!("{}/cnf-has-model-outside-the-{}-family", sig, base_of(enc)),
                            format!("model projection {:?}; attacks {:?}", (0..n).filter(|i| s0[*i]).collect::<Vec<_>>(), g.att),
                        ));
                    }
                    for &i in &inp.focus {
                        let mut s1 = s0.clone();
                        s1[i] = !s1[i];
                        sets.push(s1);
                    }
                    sets.push(s0);
                } else if base_of(enc) != "st" {
                    return Err(Failure::new(format!("{}/cnf-unsatisfiable-although-the-family-is-never-empty", sig), format!("attacks {:?}", g.att)));
                }
                // (2) members of the family from an independent reference encoding, made diverse by the model
                // chooser and blocking clauses: each must be a model of the CNF (checked below with the others)
                {
                    let seed = c.probes.first().copied().unwrap_or(1) ^ (n as u64) << 20;
                    let mut r: Box<dyn SatSolver> = if inp.light { sat::default_solver() } else { satwrap::choosy(seed, (seed % 3) as u8, 48)() };
                    let x = |i: usize| (i + 1) as isize;
                    let p = |i: usize| (n + 1 + i) as isize;
                    let attackers: Vec<Vec<usize>> = {
                        let mut v = vec![vec![]; n];
                        for (a, b) in &g.att {
                            if !v[*b as usize].contains(&(*a as usize)) {
                                v[*b as usize].push(*a as usize);
                            }
                        }
                        v
                    };
                    let base = base_of(enc);
                    for a in 0..n {
                        let mut long = vec![Literal::from(-p(a))];
                        for b in &attackers[a] {
                            long.push(Literal::from(x(*b)));
                            r.add_clause(vec![Literal::from(-x(*b)), Literal::from(p(a))]);
                        }
                        r.add_clause(long);
                        r.add_clause(vec![Literal::from(-x(a)), Literal::from(-p(a))]);
                        if base == "adm" || base == "co" {
                            for b in &attackers[a] {
                                r.add_clause(vec![Literal::from(-x(a)), Literal::from(p(*b))]);
                            }
                        }
                        if base == "co" {
                            let mut cl = vec![Literal::from(x(a))];
                            cl.extend(attackers[a].iter().map(|b| Literal::from(-p(*b))));
                            r.add_clause(cl);
                        }
                        if base == "st" {
                            r.add_clause(vec![Literal::from(x(a)), Literal::from(p(a))]);
                        }
                    }
                    for _ in 0..(if inp.light { 5 } else { 12 }) {
                        match r.solve() {
                            SolvingResult::Satisfiable(m) => {
                                let member: Vec<bool> = (0..n).map(|i| m.value_of(i + 1) == Some(true)).collect();
                                if !in_family(&member) {
                                    std::panic::panic_any(crate::engine::Inconclusive(format!("C10 reference encoding of the {} family produced a non-member on {:?}", base, g.att)));
                                }
                                r.add_clause((0..n).map(|i| Literal::from(if member[i] { -x(i) } else { x(i) })).collect());
                                sets.push(member);
                                rec.count("family-members-from-the-reference-encoding-probed", 1);
                            }
                            _ => break,
                        }
                    }
                }
                for (k, seed) in c.probes.iter().enumerate().take(if inp.light { 1 } else { usize::MAX }) {
                    // subsets of varying density derived from the generated words
                    let mut x = *seed | 1;
                    let dens = 1 + k % 4;
                    sets.push((0..n).map(|_| {
                        x ^= x << 13;
                        x ^= x >> 7;
                        x ^= x << 17;
                        (x % 8) < dens as u64
                    }).collect());
                }
                // light mode (frameworks above 2^16 arguments, all arguments outside `focus` isolated): an assumption
                // per argument makes every probe cost a second, so only the focus and 64 spread-out isolated
                // arguments are assumed; isolated arguments are put in every probe set (they belong to every
                // complete / stable set and never hurt the other families), and the model's projection is compared
                // on the assumed arguments and judged as a whole by the polynomial membership test
                // (tens of thousands of assumptions are as many decision levels for CaDiCaL: in light mode a probe is a
                // fresh solver with the CNF and the probe set as unit clauses)
                let assumed: Vec<usize> = (0..n).collect();
                let fresh_with = |units: &[Literal]| {
                    let mut t = sat::default_solver();
                    t.reserve(nv);
                    for cl in &clauses {
                        t.add_clause(cl.iter().map(|l| Literal::from(*l)).collect());
                    }
                    for u in units {
                        t.add_clause(vec![*u]);
                    }
                    t
                };
                if inp.light {
                    let mut is_focus = vec![false; n];
                    inp.focus.iter().for_each(|i| is_focus[*i] = true);
                    for s in sets.iter_mut() {
                        for i in 0..n {
                            if !is_focus[i] {
                                s[i] = true;
                            }
                        }
                    }
                }
                for s in &sets {
                    let assumptions: Vec<Literal> = assumed.iter().map(|&i| Literal::from(if s[i] { lits[i] } else { -lits[i] })).collect();
                    rec.count("disagreements_checked", 1);
                    let want = in_family(s);
                    let mut tmp;
                    let res = if inp.light {
                        tmp = fresh_with(&assumptions);
                        tmp.solve()
                    } else {
                        probe.solve_under_assumptions(&assumptions)
                    };
                    let got = match res {
                        SolvingResult::Satisfiable(m) => {
                            let back: Vec<usize> = e.assignment_to_extension(&m, &af).iter().map(|a| *a.label() - 1).collect();
                            let mut bs = vec![false; n];
                            for i in &back {
                                if bs[*i] {
                                    return Err(Failure::new(format!("{}/assignment_to_extension-duplicate", sig), format!("{}", i)));
                                }
                                bs[*i] = true;
                            }
                            if assumed.iter().any(|&i| bs[i] != s[i]) {
                                return Err(Failure::new(format!("{}/assignment_to_extension-differs-from-model", sig), format!("{:?}", back.iter().take(200).collect::<Vec<_>>())));
                            }
                            if inp.light && !in_family(&bs) {
                                return Err(Failure::new(format!("{}/cnf-has-model-outside-the-{}-family", sig, base_of(enc)), format!("model projection on the motif {:?}; n {} attacks {:?}", inp.focus.iter().filter(|i| bs[**i]).collect::<Vec<_>>(), n, g.att)));
                            }
                            true
                        }
                        SolvingResult::Unsatisfiable => false,
                        SolvingResult::Unknown => return Err(Failure::new(format!("{}/probe-unknown", sig), "")),
                    };
                    if got != want {
                        let what = if got { format!("cnf-has-model-outside-the-{}-family", base_of(enc)) } else { format!("cnf-misses-a-{}-set", base_of(enc)) };
                        return Err(Failure::new(
                            format!("{}/{}", sig, what),
                            format!("set {:?}; n {} attacks {:?}", (0..n).filter(|i| s[*i]).collect::<Vec<_>>(), n, g.att),
                        ));
                    }
                    if with_range && want {
                        let att_by = adj.attacked_by(s);
                        let range: Vec<bool> = (0..n).map(|i| s[i] || att_by[i]).collect();
                        let mut a2 = assumptions.clone();
                        for &i in &assumed {
                            a2.push(Literal::from(if range[i] { range_lit(i) } else { -range_lit(i) }));
                        }
                        rec.count("disagreements_checked", 1);
                        let mut tmp2;
                        let res2 = if inp.light {
                            tmp2 = fresh_with(&a2);
                            tmp2.solve()
                        } else {
                            probe.solve_under_assumptions(&a2)
                        };
                        if !matches!(res2, SolvingResult::Satisfiable(_)) {
                            return Err(Failure::new(format!("{}/no-model-with-range-variables-equal-to-range", sig), format!("set {:?}; attacks {:?}", (0..n).filter(|i| s[*i]).collect::<Vec<_>>(), g.att)));
                        }
                        if let Some(i) = (0..n).find(|i| !range[*i]) {
                            let mut a3 = assumptions.clone();
                            a3.push(Literal::from(range_lit(i)));
                            rec.count("disagreements_checked", 1);
                            let mut tmp3;
                            let res3 = if inp.light {
                                tmp3 = fresh_with(&a3);
                                tmp3.solve()
                            } else {
                                probe.solve_under_assumptions(&a3)
                            };
                            if !matches!(res3, SolvingResult::Unsatisfiable) {
                                return Err(Failure::new(format!("{}/range-variable-true-outside-range", sig), format!("argument {}; attacks {:?}", i, g.att)));
                            }
                        }
                    }
                }
            }
        }
        Ok(())
    }

    fn run_huge(&self, c: &HugeEnc, rec: &mut Rec) -> CheckResult {
        use crustabri::io::{Iccma23Reader, InstanceReader};
        let mut ids: Vec<usize> = c.nodes.iter().map(|(f, o)| *f as usize * 65536 + *o as usize).collect();
        ids.sort();
        ids.dedup();
        // at least one argument above 2^16
        if *ids.last().unwrap() < 65536 {
            let l = ids.len() - 1;
            ids[l] += 65536;
        }
        let n = ids.last().unwrap() + 1 + c.tail as usize;
        let mut att: Vec<(usize, usize)> = c.att.iter().map(|(a, b)| (ids[crate::gen::idx(*a, ids.len())], ids[crate::gen::idx(*b, ids.len())])).collect();
        if !c.via_iccma {
            att.sort();
            att.dedup();
        }
        let mut adj = crate::checks::metamorphic::Adj { n, out: vec![vec![]; n], inc: vec![vec![]; n] };
        for (a, b) in &att {
            if !adj.out[*a].contains(b) {
                adj.out[*a].push(*b);
                adj.inc[*b].push(*a);
            }
        }
        let af: AAFramework<usize> = if c.via_iccma {
            let mut t = format!("p af {}\n", n);
            for (a, b) in &att {
                t.push_str(&format!("{} {}\n", a + 1, b + 1));
            }
            Iccma23Reader::default().read(&mut t.as_bytes()).map_err(|e| Failure::new("C10/huge/reader-rejected-generated-file", e.to_string()))?
        } else {
            let labels: Vec<usize> = (1..=n).collect();
            let mut af = AAFramework::new_with_argument_set(crustabri::aa::ArgumentSet::new_with_labels(&labels));
            for (a, b) in &att {
                af.new_attack(&(*a + 1), &(*b + 1)).unwrap();
            }
            af
        };
        // size of the exp complete encoding on the motif (every isolated argument costs one clause)
        let indeg = |x: usize| att.iter().filter(|(_, b)| *b == x).count().max(1);
        let exp_clauses = ids.iter().map(|x| att.iter().filter(|(_, b)| b == x).fold(1usize, |p, (a, _)| p.saturating_mul(indeg(*a)))).fold(0usize, |a, b| a.saturating_add(b));
        rec.class(&format!("huge-n-above-{}x2^16", n / 65536));
        let two_sided = att.iter().any(|(a, b)| a > b && a - b >= 65000) && att.iter().any(|(a, b)| a < b);
        if two_sided {
            rec.class("huge-with-an-attack-from-above-2^16-downwards-and-an-upward-attack");
        }
        self.check_cnfs(&CnfIn { n, att: &att, adj: &adj, af: &af, skip_exp: exp_clauses > EXP_LIMIT, probes: &c.probes, focus: ids.clone(), light: true }, rec)
            .map_err(|f| Failure { signature: f.signature.replace("C10/large/", "C10/huge/"), ..f })?;
        if two_sided && rec.nontrivial(c) {
            rec.sample(|| json!({"huge_framework_arguments": n, "motif_ids": ids, "attacks": att}));
        }
        Ok(())
    }

    fn run_generic<T: LabelType>(&self, af: &AAFramework<T>, labels: &[T], ecase: &EncCase, rec: &mut Rec) -> CheckResult {
        let case = &ecase.gc;
        let n = case.g.n;
        // the warm-up framework, in the same label type
        let warm: Option<AAFramework<T>> = ecase.warmup.as_ref().map(|w| {
            let mut set = crustabri::aa::ArgumentSet::new_with_labels(&[] as &[T]);
            // reuse the case's labels, then as many further ones as needed are not available generically:
            // the warm-up is limited to the number of labels of the case (>= 1 needed)
            let k = w.n.min(labels.len());
            for l in labels.iter().take(k) {
                set.new_argument(l.clone());
            }
            let mut waf = AAFramework::new_with_argument_set(set);
            for (a, b) in &w.att {
                if (*a as usize) < k && (*b as usize) < k {
                    let _ = waf.new_attack(&labels[*a as usize], &labels[*b as usize]);
                }
            }
            waf
        });
        let g = G::new(n, &case.g.att_usize());
        let fams = Fams::new(&g);
        let full = g.full();
        let many_attackers = (0..n).any(|a| g.attackers[a].count_ones() >= 2);
        for enc in ENCODERS {
            if enc == Enc::ExpCo && (!crate::checks::statics::enc_feasible(enc, &case.g, &case.pres) || exp_cost(&case.g, matches!(case.pres, Pres::Iccma)) > EXP_LIMIT) {
                rec.class("exp-encoder-skipped-exponential-size");
                continue;
            }
            for with_range in [false, true] {
                if with_range && enc == Enc::Stable {
                    continue; // its range methods are unimplemented!() by design
                }
                let sig = format!("C10/{}/{}", enc.name(), if with_range { "with-range" } else { "plain" });
                let e = encoder::<T>(enc);
                if let Some(waf) = &warm {
                    if enc == Enc::ExpCo && ecase.warmup.as_ref().map_or(false, |w| exp_cost(w, false) > EXP_LIMIT) {
                        continue;
                    }
                    let mut throwaway = sat::default_solver();
                    let r = guard(|| {
                        if with_range {
                            e.encode_constraints_and_range(waf, throwaway.as_mut())
                        } else {
                            e.encode_constraints(waf, throwaway.as_mut())
                        }
                    });
                    if let Err(p) = r {
                        return Err(Failure::new(format!("{}/encoder-panic-on-warm-up", sig), p));
                    }
                }
                let shared = Shared::recording(usize::MAX);
                let mut rec_solver = satwrap::wrap(&shared, sat::default_solver());
                let r = guard(|| {
                    if with_range {
                        e.encode_constraints_and_range(af, &mut rec_solver)
                    } else {
                        e.encode_constraints(af, &mut rec_solver)
                    }
                });
                if let Err(p) = r {
                    return Err(Failure::new(format!("{}/encoder-panic", sig), p));
                }
                let nv = rec_solver.n_vars();
                let clauses = shared.instances.borrow()[0].clauses.clone();
                rec.count("programs", 1);
                rec.eval();
                let maxv = clauses.iter().flatten().map(|l| l.unsigned_abs()).max().unwrap_or(0);
                if maxv > nv {
                    return Err(Failure::new(format!("{}/variable-above-n_vars", sig), format!("max var {} n_vars {}", maxv, nv)));
                }
                // layout
                let lits: Vec<isize> = (0..n)
                    .map(|i| isize::from(e.arg_to_lit(af.argument_set().get_argument(&labels[i]).unwrap())))
                    .collect();
                for (i, l) in lits.iter().enumerate() {
                    if *l <= 0 {
                        return Err(Failure::new(format!("{}/arg-literal-not-positive", sig), format!("arg {} -> {}", i, l)));
                    }
                    if lits[..i].contains(l) {
                        return Err(Failure::new(format!("{}/arg-literals-collide", sig), format!("{:?}", lits)));
                    }
                }
                // range variable of the argument with id k is first_range_var + k
                let range_lit = |i: usize| -> isize {
                    let id = af.argument_set().get_argument(&labels[i]).unwrap().id();
                    (e.first_range_var(n) + id) as isize
                };
                if with_range {
                    for i in 0..n {
                        let rl = range_lit(i);
                        if lits.contains(&rl) {
                            return Err(Failure::new(
                                format!("{}/range-variable-collides-with-argument-variable", sig),
                                format!("args {:?} range var {}", lits, rl),
                            ));
                        }
                        if rl as usize > nv {
                            return Err(Failure::new(format!("{}/range-variable-above-n_vars", sig), format!("{} > {}", rl, nv)));
                        }
                    }
                }
                // an independent solver instance loaded with the recorded program
                let mut probe = sat::default_solver();
                probe.reserve(nv);
                for c in &clauses {
                    probe.add_clause(c.iter().map(|l| Literal::from(*l)).collect());
                }
                let mut fam = family(&fams, enc);
                fam.sort();
                let in_fam = |s: u32| fam.binary_search(&s).is_ok();
                if fam.len() >= 2 && many_attackers {
                    if rec.nontrivial(&(case.g.canonical(), case.pres.kind(), enc, with_range, &ecase.warmup)) {
                        rec.sample_sized(clauses.len(), || {
                            json!({"case": case, "encoder": enc.name(), "with_range": with_range, "n_vars": nv,
                                   "n_clauses": clauses.len(), "family_size": fam.len(),
                                   "cnf": if clauses.len() <= 40 { json!(clauses) } else { json!(format!("{} clauses", clauses.len())) }})
                        });
                    }
                }
                if enc == Enc::Hybrid {
                    let aux = maxv > if with_range { 2 * n } else { n };
                    rec.class(if aux { "hybrid-took-auxiliary-branch" } else { "hybrid-all-exp-branch" });
                }
                for s in 0..=full {
                    let assumptions: Vec<Literal> = (0..n)
                        .map(|i| if s & (1 << i) != 0 { Literal::from(lits[i]) } else { Literal::from(-lits[i]) })
                        .collect();
                    rec.count("disagreements_checked", 1);
                    match probe.solve_under_assumptions(&assumptions) {
                        SolvingResult::Satisfiable(m) => {
                            if !in_fam(s) {
                                return Err(Failure::new(
                                    format!("{}/cnf-has-model-outside-the-{}-family", sig, base_of(enc)),
                                    format!("set {:?} is a model projection but not {}; cnf {:?}", mask_to_vec(s), base_of(enc), clauses),
                                ));
                            }
                            // translating the model back gives exactly s
                            let back = guard(|| {
                                e.assignment_to_extension(&m, af).iter().map(|a| a.label().clone()).collect::<Vec<T>>()
                            })
                            .map_err(|p| Failure::new(format!("{}/assignment_to_extension-panic", sig), p))?;
                            let mut bm = 0u32;
                            for l in &back {
                                match labels.iter().position(|x| x == l) {
                                    Some(i) if bm & (1 << i) == 0 => bm |= 1 << i,
                                    _ => {
                                        return Err(Failure::new(
                                            format!("{}/assignment_to_extension-foreign-or-duplicate", sig),
                                            format!("{:?}", back.iter().map(|l| l.to_string()).collect::<Vec<_>>()),
                                        ))
                                    }
                                }
                            }
                            if bm != s {
                                return Err(Failure::new(
                                    format!("{}/assignment_to_extension-differs-from-model", sig),
                                    format!("model set {:?} translated to {:?}", mask_to_vec(s), mask_to_vec(bm)),
                                ));
                            }
                        }
                        SolvingResult::Unsatisfiable => {
                            if in_fam(s) {
                                return Err(Failure::new(
                                    format!("{}/cnf-misses-a-{}-set", sig, base_of(enc)),
                                    format!("set {:?} is {} but the cnf has no such model; cnf {:?}", mask_to_vec(s), base_of(enc), clauses),
                                ));
                            }
                        }
                        SolvingResult::Unknown => return Err(Failure::new(format!("{}/probe-unknown", sig), "")),
                    }
                    if with_range && in_fam(s) {
                        let range = g.range(s);
                        // completeness: a model whose range variables equal the range
                        let mut a2 = assumptions.clone();
                        for i in 0..n {
                            let rl = range_lit(i);
                            a2.push(Literal::from(if range & (1 << i) != 0 { rl } else { -rl }));
                        }
                        rec.count("disagreements_checked", 1);
                        if !matches!(probe.solve_under_assumptions(&a2), SolvingResult::Satisfiable(_)) {
                            return Err(Failure::new(
                                format!("{}/no-model-with-range-variables-equal-to-range", sig),
                                format!("set {:?} range {:?}; cnf {:?}", mask_to_vec(s), mask_to_vec(range), clauses),
                            ));
                        }
                        // soundness: a range variable cannot be true outside the range
                        for i in 0..n {
                            if range & (1 << i) == 0 {
                                let mut a3 = assumptions.clone();
                                a3.push(Literal::from(range_lit(i)));
                                rec.count("disagreements_checked", 1);
                                if !matches!(probe.solve_under_assumptions(&a3), SolvingResult::Unsatisfiable) {
                                    return Err(Failure::new(
                                        format!("{}/range-variable-true-outside-range", sig),
                                        format!("set {:?} range {:?} argument {}; cnf {:?}", mask_to_vec(s), mask_to_vec(range), i, clauses),
                                    ));
                                }
                            }
                        }
                    }
                }
            }
        }
        Ok(())
    }
}

impl Prop for Encodings {
    type Case = EncAny;
    fn id(&self) -> &'static str {
        "C10"
    }
    fn level(&self) -> &'static str {
        "translation_validation"
    }
    fn rule(&self) -> String {
        "Frameworks with compact ids (ArgumentSet::new_with_labels in any declaration order, ICCMA'23 reader with duplicate attack lines, Aspartix reader; <=8 arguments quick, <=10 thorough; plus all digraphs on <=3 / <=4 arguments) x {aux_var cf/adm/complete, exp cf/complete, hybrid complete, default stable} x {plain, with range} (stable: plain only, its range methods are unimplemented by design); in 40% of the cases the same encoder object first encodes another generated framework, as the solvers do for successive connected components. One case in 40 is a framework of 11-48 arguments (sparse, optionally one argument with 6-23 attackers, optionally through the ICCMA'23 reader with repeated attack lines): there the probed sets are the CNF's own model, its <=40 one-argument neighbours, the grounded and empty sets and 4-12 generated subsets, and membership in the family is decided polynomially. An extra phase hands the encoders 8 (quick) / 62 (thorough) frameworks of more than 2^16 arguments (a motif of <=10 arguments at ids around multiples of 2^16, all other arguments isolated; two fixed, the others sampled for the seed): exact SAT search for a model outside the family on the motif, its id neighbours and 64 isolated arguments, probe sets given as unit clauses. The clause list recorded from the encoder is the program; for EVERY subset S of the arguments, CNF + (S as assumptions on the argument literals) is satisfiable on an independent solver instance iff S belongs to the intended family by brute force; assignment_to_extension of each such model is exactly S; with range: a model with range variables = range(S) exists, and each range variable outside range(S) is refuted; literals positive, injective, disjoint from range variables, all variables <= n_vars(). programs = CNFs validated; disagreements_checked = assumption probes compared with the oracle. Non-trivial: the family has >=2 members and some argument has >=2 attackers; distinct = (graph, presentation kind, encoder, range flag).".into()
    }
    fn assumptions(&self) -> Vec<String> {
        vec![
            "oracle.rs families (conflict-free, admissible, complete, stable)".into(),
            "CadicalSolver as probing solver (itself checked by C15)".into(),
            "encoders are only fed compact ids, as the solvers do; component extraction inside the solvers is covered indirectly by C01-C04".into(),
        ]
    }
    fn strategy(&self, tier: Tier) -> BoxedStrategy<EncAny> {
        use proptest::collection::vec;
        let nmax = tier.pick(8, 10);
        let small = (gen::graph(nmax), gen::pres_compact(nmax), prop_oneof![3 => Just(None), 2 => gen::graph(nmax).prop_map(Some)])
            .prop_map(|(g, pres, warmup)| EncAny::Small(EncCase { gc: GraphCase { g, pres }, warmup }));
        let large = prop_oneof![3 => 11usize..=48, 1 => 70usize..=190]
            .prop_flat_map(|n| {
                (Just(n), vec((any::<u16>(), any::<u16>()), 0..=(2 * n)), prop_oneof![2 => Just(0u8), 1 => 6u8..24, 1 => 30u8..90], any::<bool>(), vec(any::<u16>(), 0..=4), vec(any::<u64>(), 4..=12))
            })
            .prop_map(|(n, att, hub_attackers, via_iccma, dups, probes)| EncAny::Large(LargeEnc { n, att, hub_attackers, via_iccma, dups, probes, period: 0, lift: false, force_exp: false }));
        // 64-320 arguments whose attacks run between a dozen residues modulo 32 or 64 on several floors
        let residue = (prop_oneof![1 => Just(32u8), 3 => Just(64u8)], 2usize..=5, 0usize..3)
            .prop_flat_map(|(period, floors, extra)| {
                let n = period as usize * floors + extra;
                (Just(n), Just(period), vec((any::<u16>(), any::<u16>()), 20..=(12 * floors * 3)), any::<bool>(), vec(any::<u16>(), 0..=3), vec(any::<u64>(), 4..=8))
            })
            .prop_map(|(n, period, att, via_iccma, dups, probes)| EncAny::Large(LargeEnc { n, att, hub_attackers: 0, via_iccma, dups, probes, period, lift: false, force_exp: false }));
        let lifted = (prop_oneof![1 => Just(32u8), 3 => Just(64u8)], 2usize..=4, 0usize..3)
            .prop_flat_map(|(period, floors, extra)| {
                let n = period as usize * floors + extra;
                (Just(n), Just(period), vec((any::<u16>(), any::<u16>()), 6..=22), any::<bool>(), vec(any::<u64>(), 4..=8))
            })
            .prop_map(|(n, period, att, via_iccma, probes)| EncAny::Large(LargeEnc { n, att, hub_attackers: 0, via_iccma, dups: vec![], probes, period, lift: true, force_exp: false }));
        prop_oneof![80 => small, 2 => large, 1 => residue, 1 => lifted].boxed()
    }
    fn n_cases(&self, tier: Tier) -> u32 {
        tier.pick(80_000, 1_500_000)
    }
    fn enumerated(&self, tier: Tier) -> (Vec<EncAny>, String) {
        let max = tier.pick(3, 4);
        let mut v = vec![];
        for n in 0..=max {
            for g in gen::all_graphs(n) {
                v.push(EncAny::Small(EncCase { gc: GraphCase { g, pres: Pres::Direct { offset: 0, order_keys: vec![] } }, warmup: None }));
            }
        }
        // one framework whose exponential encoding has more than 2^20 clauses for one argument: x attacked by
        // four arguments, each attacked by 33 optional defenders (33^4 = 1 185 921 defence tuples)
        {
            let (nb, nd) = (4u16, 33u16);
            let mut att: Vec<(u16, u16)> = vec![];
            let first_d = 1 + nb;
            let first_p = first_d + nb * nd;
            for b in 0..nb {
                att.push((1 + b, 0));
                for j in 0..nd {
                    let d = first_d + b * nd + j;
                    let p = first_p + b * nd + j;
                    att.push((d, 1 + b));
                    att.push((d, p));
                    att.push((p, d));
                }
            }
            let n = (first_p + nb * nd) as usize;
            v.push(EncAny::Large(LargeEnc { n, att, hub_attackers: 0, via_iccma: false, dups: vec![], probes: vec![1, 2, 3, 4], period: 0, lift: false, force_exp: true }));
        }
        (v, format!("all digraphs on 0..={} arguments x 7 encoders x plain/range; one framework of 269 arguments whose exp encoding has 33^4 > 2^20 clauses for one argument", max))
    }
    fn run(&self, any: &EncAny, rec: &mut Rec) -> CheckResult {
        let ecase = match any {
            EncAny::Small(e) => e,
            // shrinking a framework of hundreds of arguments costs minutes: reported as found
            EncAny::Large(l) => return self.run_large(l, rec).map_err(|f| if l.n > 100 { f.unshrinkable() } else { f }),
            EncAny::Huge(h) => return self.run_huge(h, rec).map_err(|f| f.unshrinkable()),
        };
        let case = &ecase.gc;
        rec.class(&format!("pres-{}", case.pres.kind()));
        rec.class(&format!("n={:02}", case.g.n));
        if ecase.warmup.is_some() {
            rec.class("encoder-object-reused-after-another-framework");
        }
        match build(case) {
            Built::U(af, labels) => self.run_generic(&af, &labels, ecase, rec),
            Built::S(af, labels) => self.run_generic(&af, &labels, ecase, rec),
            Built::C(af, labels) => self.run_generic(&af, &labels, ecase, rec),
        }
    }
    fn extra_phase(&self, tier: Tier, seed: u64, rec: &mut Rec) -> Result<(), (EncAny, Failure)> {
        // Frameworks of more than 2^16 arguments at the encoder level (section 6: 16-bit keys, masks and casts in
        // an encoder). Two fixed ones with ids exactly 2^16 and 2^17 apart attacking in both directions, then
        // generated ones (deterministic samples of `huge_strategy` for the seed).
        let twin = |via_iccma: bool| HugeEnc {
            nodes: vec![(0, 2), (0, 3), (0, 5), (1, 5), (1, 2), (2, 3), (1, 3)],
            // sorted ids: 2 3 5 65538 65539 65541 131075 -> indices 0..=6 (idx maps k*(len)>>16)
            att: [(5usize, 0usize), (1, 2), (2, 1), (0, 3), (6, 1), (0, 1), (4, 6), (3, 5), (5, 3)].iter().map(|(a, b)| (((a << 16) / 7 + 1) as u16, ((b << 16) / 7 + 1) as u16)).collect(),
            tail: 7,
            via_iccma,
            probes: vec![0x9E37_79B9_7F4A_7C15, 3],
        };
        let strat = huge_strategy();
        let k_gen = tier.pick(6, 60) as u64;
        let cases: Vec<HugeEnc> = [twin(false), twin(true)].into_iter().chain((0..k_gen).map(|k| crate::engine::sample_strategy(&strat, seed, "C10-huge", k))).collect();
        // the cases are independent: run them on threads, report the first failure in case order
        // (eight at a time: each holds several copies of a CNF over 10^5 variables)
        let mut results: Vec<(Rec, CheckResult)> = vec![];
        for chunk in cases.chunks(8) {
            let part: Vec<(Rec, CheckResult)> = std::thread::scope(|sc| {
            let hs: Vec<_> = chunk
                .iter()
                .map(|c| {
                    sc.spawn(move || {
                        let mut r = Rec::default();
                        let out = match std::panic::catch_unwind(std::panic::AssertUnwindSafe(|| self.run_huge(c, &mut r))) {
                            Ok(o) => o,
                            Err(p) => match p.downcast_ref::<crate::engine::Inconclusive>() {
                                Some(i) => {
                                    r.inconclusive(&i.0);
                                    Ok(())
                                }
                                None => Err(Failure::new("harness/uncaught-panic", crate::engine::panic_message(&p))),
                            },
                        };
                        r.eval();
                        (r, out)
                    })
                })
                .collect();
            hs.into_iter().map(|h| h.join().unwrap()).collect()
            });
            results.extend(part);
            if results.iter().any(|(_, o)| o.is_err()) {
                break;
            }
        }
        for ((r, out), c) in results.into_iter().zip(cases) {
            rec.merge(r);
            if let Err(f) = out {
                return Err((EncAny::Huge(c), f));
            }
        }
        Ok(())
    }
    fn finish_coverage(&self, cov: &mut Map<String, Value>, rec: &Rec) {
        cov.insert("programs".into(), json!(rec.counters.get("programs").copied().unwrap_or(0)));
        cov.insert("disagreements_checked".into(), json!(rec.counters.get("disagreements_checked").copied().unwrap_or(0)));
        cov.insert(
            "explanation".into(),
            json!("programs = CNFs produced by the encoders and validated; disagreements_checked = assumption probes whose SAT/UNSAT outcome was compared with the brute-force family membership (zero disagreed unless a violation is reported)"),
        );
    }
}
