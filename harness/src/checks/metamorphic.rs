//! C11: statuses are invariant under presentation and local to components; the answers for
//! different semantics on one framework are mutually consistent. Frameworks of 20-300 arguments,
//! beyond the reach of the brute-force oracle: the relations are the oracle.

use crate::engine::{CheckResult, Failure, Prop, Rec, Tier};
use crate::gen::{self, idx, AbsGraph};
use crate::oracle::{Fams, Sem, ALL_SEMS, G};
use crate::queries::{encodings_for, kind_for, Enc, Ext, SolverObj, Q};
use crate::satwrap::{self, Shared};
use crate::util::guard;
use crustabri::aa::AAFramework;
use crustabri::io::{AspartixReader, Iccma23Reader, InstanceReader};
use crustabri::utils::LabelType;
use proptest::collection::vec;
use proptest::prelude::*;
use serde::{Deserialize, Serialize};
use serde_json::json;
use std::collections::{BTreeMap, BTreeSet};

#[derive(Clone, Debug, PartialEq, Eq, Hash, Serialize, Deserialize)]
pub struct BigGraph {
    pub n: usize,
    pub att: Vec<(u16, u16)>,
}

#[derive(Clone, Debug, Serialize, Deserialize)]
pub struct MetaCase {
    pub blocks: Vec<AbsGraph>,
    /// links between blocks (from a node of an earlier block to a node of a later block)
    pub links: Vec<(u16, u16, u16, u16)>,
    pub queried: Vec<u16>,
    pub enc_pick: u8,
    pub transforms: Vec<Transform>,
    /// the second framework for disjoint union
    pub g2: AbsGraph,
    /// (target, attackers, defeated): `attackers` fresh unattacked arguments all attack `target`; the first
    /// `defeated` of them are themselves attacked by one more fresh unattacked argument. In-degrees of several
    /// hundred arise while every semantics stays trivial on the new arguments.
    #[serde(default)]
    pub fan: Option<(u16, u16, u16)>,
    /// pad with isolated-chain arguments up to the next multiple of 64 arguments
    #[serde(default)]
    pub pad64: bool,
}

#[derive(Clone, Debug, PartialEq, Eq, Hash, Serialize, Deserialize)]
pub enum Transform {
    /// rename / reorder arguments by a permutation derived from the keys
    Permute(Vec<u8>),
    ShuffleAttacks(Vec<u8>),
    DuplicateAttacks(Vec<u16>),
    /// one attack line repeated several hundred times
    RepeatOneAttack(u16, u16),
    ToAspartix(u8),
    ToIccma,
    UnionWithG2 { before: bool },
    RemoveComponent(u16),
}

pub struct Meta;

fn assemble(case: &MetaCase) -> BigGraph {
    let mut offs = vec![];
    let mut n = 0usize;
    for b in &case.blocks {
        offs.push(n);
        n += b.n;
    }
    let mut att: Vec<(u16, u16)> = vec![];
    for (bi, b) in case.blocks.iter().enumerate() {
        for (x, y) in &b.att {
            att.push(((offs[bi] + *x as usize) as u16, (offs[bi] + *y as usize) as u16));
        }
    }
    let nb = case.blocks.len();
    // Keep every connected component tractable: the product of the blocks' numbers of preferred
    // extensions inside one component stays <= 64 (links that would exceed it are dropped).
    let mut parent: Vec<usize> = (0..nb).collect();
    let mut weight: Vec<usize> = case
        .blocks
        .iter()
        .map(|b| Fams::new(&G::new(b.n, &b.att_usize())).pr.len().max(1))
        .collect();
    fn find(p: &mut Vec<usize>, x: usize) -> usize {
        let mut r = x;
        while p[r] != r {
            r = p[r];
        }
        let mut c = x;
        while p[c] != r {
            let nx = p[c];
            p[c] = r;
            c = nx;
        }
        r
    }
    for (b1, x, b2, y) in &case.links {
        if nb < 2 {
            break;
        }
        let i = idx(*b1, nb - 1);
        let j = i + 1 + idx(*b2, nb - 1 - i);
        if case.blocks[i].n == 0 || case.blocks[j].n == 0 {
            continue;
        }
        let (ri, rj) = (find(&mut parent, i), find(&mut parent, j));
        if ri != rj {
            if weight[ri].saturating_mul(weight[rj]) > 64 {
                continue;
            }
            parent[ri] = rj;
            weight[rj] = weight[ri] * weight[rj];
        }
        let a = offs[i] + idx(*x, case.blocks[i].n);
        let b = offs[j] + idx(*y, case.blocks[j].n);
        att.push((a as u16, b as u16));
    }
    let mut n = n;
    if let Some((t, k, d)) = case.fan {
        if n > 0 {
            let target = idx(t, n);
            let k = k as usize;
            let first = n;
            for j in 0..k {
                att.push(((first + j) as u16, target as u16));
            }
            n += k;
            let d = (d as usize).min(k);
            if d > 0 {
                let killer = n;
                n += 1;
                for j in 0..d {
                    att.push((killer as u16, (first + j) as u16));
                }
            }
        }
    }
    if case.pad64 && n % 64 != 0 {
        // a chain x1 -> x2 -> ... appended after everything else
        let first = n;
        let add = 64 - n % 64;
        for j in 1..add {
            att.push(((first + j - 1) as u16, (first + j) as u16));
        }
        n += add;
    }
    BigGraph { n, att }
}

/// A presented framework: the abstract graph, how node i is called, declaration order, attack lines, format.
#[derive(Clone, Debug)]
struct Presented {
    g: BigGraph,
    /// position of node i in the declaration order
    order: Vec<usize>,
    lines: Vec<(u16, u16)>,
    apx_style: Option<u8>,
}

impl Presented {
    fn new(g: BigGraph) -> Presented {
        let order = (0..g.n).collect();
        let lines = g.att.clone();
        Presented { g, order, lines, apx_style: None }
    }
    fn label(&self, node: usize) -> String {
        match self.apx_style {
            None => (self.order[node] + 1).to_string(),
            Some(s) => match s % 3 {
                0 => format!("a{}", self.order[node] * 7 + 3),
                1 => format!("_n{}", node),
                _ => format!("X{}_", self.order[node]),
            },
        }
    }
    fn text(&self) -> String {
        let mut decl: Vec<usize> = (0..self.g.n).collect();
        decl.sort_by_key(|i| self.order[*i]);
        let mut s = String::new();
        match self.apx_style {
            None => {
                s.push_str(&format!("p af {}\n", self.g.n));
                for (a, b) in &self.lines {
                    s.push_str(&format!("{} {}\n", self.label(*a as usize), self.label(*b as usize)));
                }
            }
            Some(_) => {
                for i in decl {
                    s.push_str(&format!("arg({}).\n", self.label(i)));
                }
                for (a, b) in &self.lines {
                    s.push_str(&format!("att({},{}).\n", self.label(*a as usize), self.label(*b as usize)));
                }
            }
        }
        s
    }
}

pub struct Adj {
    pub n: usize,
    pub out: Vec<Vec<usize>>,
    pub inc: Vec<Vec<usize>>,
}

impl Adj {
    pub fn new(g: &BigGraph) -> Adj {
        let mut out = vec![vec![]; g.n];
        let mut inc = vec![vec![]; g.n];
        let set: BTreeSet<(u16, u16)> = g.att.iter().copied().collect();
        for (a, b) in set {
            out[a as usize].push(b as usize);
            inc[b as usize].push(a as usize);
        }
        Adj { n: g.n, out, inc }
    }
    pub fn components(&self) -> Vec<Vec<usize>> {
        let mut comp = vec![usize::MAX; self.n];
        let mut res = vec![];
        for s in 0..self.n {
            if comp[s] != usize::MAX {
                continue;
            }
            let id = res.len();
            let mut members = vec![];
            let mut stack = vec![s];
            comp[s] = id;
            while let Some(x) = stack.pop() {
                members.push(x);
                for &y in self.out[x].iter().chain(self.inc[x].iter()) {
                    if comp[y] == usize::MAX {
                        comp[y] = id;
                        stack.push(y);
                    }
                }
            }
            members.sort();
            res.push(members);
        }
        res
    }
    pub fn conflict_free(&self, s: &[bool]) -> bool {
        (0..self.n).all(|a| !s[a] || self.out[a].iter().all(|b| !s[*b]))
    }
    pub fn attacked_by(&self, s: &[bool]) -> Vec<bool> {
        let mut r = vec![false; self.n];
        for a in 0..self.n {
            if s[a] {
                for &b in &self.out[a] {
                    r[b] = true;
                }
            }
        }
        r
    }
    /// complete: conflict-free and contains exactly the arguments it defends
    pub fn complete(&self, s: &[bool]) -> bool {
        if !self.conflict_free(s) {
            return false;
        }
        let def = self.attacked_by(s);
        (0..self.n).all(|a| {
            let defended = self.inc[a].iter().all(|b| def[*b]);
            defended == s[a]
        })
    }
    pub fn admissible(&self, s: &[bool]) -> bool {
        if !self.conflict_free(s) {
            return false;
        }
        let def = self.attacked_by(s);
        (0..self.n).all(|a| !s[a] || self.inc[a].iter().all(|b| def[*b]))
    }
    pub fn stable(&self, s: &[bool]) -> bool {
        if !self.conflict_free(s) {
            return false;
        }
        let def = self.attacked_by(s);
        (0..self.n).all(|a| s[a] || def[a])
    }
    pub fn grounded(&self) -> Vec<bool> {
        let mut s = vec![false; self.n];
        loop {
            let def = self.attacked_by(&s);
            let mut changed = false;
            for a in 0..self.n {
                if !s[a] && self.inc[a].iter().all(|b| def[*b]) {
                    s[a] = true;
                    changed = true;
                }
            }
            if !changed {
                return s;
            }
        }
    }
}

type Statuses = BTreeMap<(Q, Sem, usize), bool>;

struct Eval {
    statuses: Statuses,
    /// SE answers as node sets (None = no extension)
    se: BTreeMap<Sem, Option<Vec<bool>>>,
}

fn evaluate<T: LabelType>(af: &AAFramework<T>, node_label: &dyn Fn(usize) -> T, n: usize, queried: &[usize], enc_pick: u8, sig: &str) -> Result<Eval, Failure> {
    let mut statuses = Statuses::new();
    let mut se = BTreeMap::new();
    let cap = 20_000;
    let to_nodes = |e: &Ext<T>| -> Result<Vec<bool>, Failure> {
        let mut v = vec![false; n];
        let index: std::collections::HashMap<T, usize> = (0..n).map(|i| (node_label(i), i)).collect();
        for m in e {
            match index.get(&m.label) {
                Some(i) if !v[*i] => v[*i] = true,
                _ => return Err(Failure::new(format!("{}/foreign-or-duplicate-member", sig), format!("{}", m.label))),
            }
        }
        Ok(v)
    };
    for sem in ALL_SEMS {
        let encs = encodings_for(Q::SE, sem);
        let enc = encs[enc_pick as usize % encs.len()];
        let enc = if enc == Enc::ExpCo { Enc::AuxCo } else { enc };
        let shared = Shared::new(cap);
        let r = guard(|| SolverObj::new(af, kind_for(Q::SE, sem), enc, satwrap::factory(&shared)).se())
            .map_err(|p| Failure::new(format!("{}/SE-{}/panic", sig, sem.name()), p))?;
        se.insert(sem, match r {
            None => None,
            Some(e) => Some(to_nodes(&e)?),
        });
        for q in [Q::DC, Q::DS] {
            let encs = encodings_for(q, sem);
            let enc = encs[enc_pick as usize % encs.len()];
            let enc = if enc == Enc::ExpCo { Enc::AuxCo } else { enc };
            for &a in queried {
                let shared = Shared::new(cap);
                let lab = node_label(a);
                let b = guard(|| {
                    let mut s = SolverObj::new(af, kind_for(q, sem), enc, satwrap::factory(&shared));
                    if q == Q::DC {
                        s.dc(&[&lab], false).0
                    } else {
                        s.ds(&[&lab], false).0
                    }
                })
                .map_err(|p| Failure::new(format!("{}/{}-{}/panic", sig, q.name(), sem.name()), p))?;
                statuses.insert((q, sem, a), b);
            }
        }
    }
    Ok(Eval { statuses, se })
}

fn eval_presented(p: &Presented, queried: &[usize], enc_pick: u8, sig: &str) -> Result<Eval, Failure> {
    let text = p.text();
    match p.apx_style {
        None => {
            let af = Iccma23Reader::default()
                .read(&mut text.as_bytes())
                .map_err(|e| Failure::new(format!("{}/reader-rejected-generated-file", sig), e.to_string()))?;
            let order = p.order.clone();
            evaluate(&af, &move |i| order[i] + 1, p.g.n, queried, enc_pick, sig)
        }
        Some(_) => {
            let af = AspartixReader::default()
                .read(&mut text.as_bytes())
                .map_err(|e| Failure::new(format!("{}/reader-rejected-generated-file", sig), e.to_string()))?;
            let pc = p.clone();
            evaluate(&af, &move |i| pc.label(i), p.g.n, queried, enc_pick, sig)
        }
    }
}

fn small_has_stable(g: &AbsGraph) -> bool {
    let gg = G::new(g.n, &g.att_usize());
    !Fams::new(&gg).st.is_empty()
}

impl Prop for Meta {
    type Case = MetaCase;
    fn id(&self) -> &'static str {
        "C11"
    }
    fn rule(&self) -> String {
        "Frameworks of 20-300 arguments assembled from 4-40 blocks of <=8 arguments (random digraphs, cycles with chords, symmetric clusters, self-attackers, isolated arguments) joined by one-directional links so that several connected components of very different sizes arise; in 30% of the cases a fan gadget adds 1-600 fresh unattacked arguments that all attack one queried argument, some of them defeated by one more argument (in-degrees of several hundred); in 20% the framework is padded to a multiple of 64 arguments; 4-8 queried arguments; all 14 DC/DS problems plus the 7 SE problems with a generated encoder choice. 2-4 transformations are composed at random: permutation of names/declaration order, permutation of attack lines, repetition of attack lines (a few lines once, or one line 200-700 times), switch ICCMA'23 <-> Aspartix, disjoint union with a second framework of <=6 arguments (before or after), removal of a component of <=12 arguments not holding a queried argument. Oracle (metamorphic): every status is unchanged (ST under union/removal: unchanged iff the other part has a stable extension, otherwise DS=YES/DC=NO everywhere); returned extensions are valid by polynomial necessary conditions (conflict-free; complete for CO/PR/SST/ID; stable for ST). Consistency on each framework: GR within ID within the SE-PR answer; DC-CO = DC-PR; DS implies DC when an extension exists; ST, SST, STG agree when SE-ST returns an extension; DS-CO = grounded membership = DC-GR = DS-GR. Non-trivial: >=20 arguments, >=2 transformations and a queried argument neither in the grounded extension nor attacked by it; distinct = case.".into()
    }
    fn assumptions(&self) -> Vec<String> {
        vec![
            "relations are necessary, not sufficient: an error invisible to all of them on a framework of 20+ arguments is missed".into(),
            "the second framework and removed components are small enough for the brute-force oracle to decide whether they have a stable extension".into(),
        ]
    }
    fn strategy(&self, tier: Tier) -> BoxedStrategy<MetaCase> {
        let max_blocks = tier.pick(60usize, 75usize);
        let block = prop_oneof![
            5 => gen::graph_single(8),
            2 => Just(AbsGraph { n: 1, att: vec![] }),
            1 => Just(AbsGraph { n: 1, att: vec![(0, 0)] }),
            2 => gen::graph_single(4),
        ];
        let transform = prop_oneof![
            3 => vec(any::<u8>(), 16).prop_map(Transform::Permute),
            2 => vec(any::<u8>(), 16).prop_map(Transform::ShuffleAttacks),
            2 => vec(any::<u16>(), 1..=6).prop_map(Transform::DuplicateAttacks),
            1 => (any::<u16>(), 200u16..700).prop_map(|(w, t)| Transform::RepeatOneAttack(w, t)),
            2 => (0u8..3).prop_map(Transform::ToAspartix),
            1 => Just(Transform::ToIccma),
            3 => any::<bool>().prop_map(|before| Transform::UnionWithG2 { before }),
            3 => any::<u16>().prop_map(Transform::RemoveComponent),
        ];
        (
            vec(block, 5..=max_blocks),
            vec((any::<u16>(), any::<u16>(), any::<u16>(), any::<u16>()), 0..=2 * max_blocks),
            vec(any::<u16>(), 4..=8),
            any::<u8>(),
            vec(transform, 2..=4),
            gen::graph(6),
            prop_oneof![5 => Just(None), 1 => (any::<u16>(), 1u16..40, any::<u16>()).prop_map(Some), 1 => (any::<u16>(), 240u16..600, any::<u16>()).prop_map(Some)],
            prop_oneof![4 => Just(false), 1 => Just(true)],
        )
            .prop_map(|(blocks, links, queried, enc_pick, transforms, g2, fan, pad64)| {
                // the number of defeated attackers is all, all but a few, or about half
                let fan = fan.map(|(t, k, d): (u16, u16, u16)| (t, k, match d % 4 { 0 => k, 1 => k.saturating_sub(1 + d % 3), 2 => k / 2, _ => d % (k + 1) }));
                MetaCase { blocks, links, queried, enc_pick, transforms, g2, fan, pad64 }
            })
            .boxed()
    }
    fn n_cases(&self, tier: Tier) -> u32 {
        tier.pick(3_200, 60_000)
    }
    fn max_shrink_iters(&self) -> u32 {
        2_000
    }
    fn run(&self, case: &MetaCase, rec: &mut Rec) -> CheckResult {
        let g = assemble(case);
        if g.n == 0 || g.n > 1100 {
            return Ok(());
        }
        let (_scope, chosen) = satwrap::ChoiceScope::for_case(case);
        if chosen {
            rec.class("sat-backend-returns-chosen-models");
        }
        let adj = Adj::new(&g);
        let comps = adj.components();
        let queried: Vec<usize> = {
            let mut q: Vec<usize> = case.queried.iter().map(|r| idx(*r, g.n)).collect();
            if let Some((t, _, _)) = case.fan {
                // the target of the fan gadget is always among the queried arguments
                let n0: usize = case.blocks.iter().map(|b| b.n).sum();
                if n0 > 0 {
                    q.push(idx(t, n0));
                }
            }
            q.sort();
            q.dedup();
            q
        };
        if case.fan.map_or(false, |f| f.1 >= 200) {
            rec.class("fan-in-of-several-hundred-attackers");
        }
        if case.pad64 {
            rec.class("argument-count-multiple-of-64");
        }
        let base = Presented::new(g.clone());
        let e0 = eval_presented(&base, &queried, case.enc_pick, "C11/base")?;
        rec.eval();
        // ---- consistency on the base framework
        let gr = adj.grounded();
        self.consistency(&adj, &gr, &e0, &queried, "C11/consistency")?;
        // ---- transformations
        let mut p = base.clone();
        // node mapping base -> transformed (None if removed); transformed graph may have extra nodes
        let mut map: Vec<Option<usize>> = (0..g.n).map(Some).collect();
        let mut st_flip = false; // ST statuses become DS=YES / DC=NO
        let mut st_unknown = false;
        let mut applied = vec![];
        let has_stable_base = e0.se[&Sem::ST].is_some();
        for t in &case.transforms {
            match t {
                Transform::Permute(keys) => {
                    let n = p.g.n;
                    let mut idxs: Vec<usize> = (0..n).collect();
                    idxs.sort_by_key(|i| (keys[*i % keys.len()] as usize * 31 + *i * 7) % 257);
                    for (pos, node) in idxs.iter().enumerate() {
                        p.order[*node] = pos;
                    }
                    applied.push("permute");
                }
                Transform::ShuffleAttacks(keys) => {
                    let mut l: Vec<(usize, (u16, u16))> = p.lines.iter().copied().enumerate().collect();
                    l.sort_by_key(|(i, _)| (keys[*i % keys.len()] as usize * 131 + *i * 17) % 1021);
                    p.lines = l.into_iter().map(|(_, x)| x).collect();
                    applied.push("shuffle-attacks");
                }
                Transform::DuplicateAttacks(picks) => {
                    if !p.lines.is_empty() {
                        for r in picks {
                            let x = p.lines[idx(*r, p.lines.len())];
                            let at = idx(r.wrapping_mul(31), p.lines.len() + 1);
                            p.lines.insert(at, x);
                        }
                        applied.push("duplicate-attacks");
                    }
                }
                Transform::RepeatOneAttack(which, times) => {
                    if !p.lines.is_empty() {
                        let x = p.lines[idx(*which, p.lines.len())];
                        let at = idx(which.wrapping_mul(17), p.lines.len() + 1);
                        for _ in 0..(*times as usize % 700) {
                            p.lines.insert(at, x);
                        }
                        applied.push("repeat-one-attack");
                    }
                }
                Transform::ToAspartix(s) => {
                    p.apx_style = Some(*s);
                    applied.push("to-aspartix");
                }
                Transform::ToIccma => {
                    p.apx_style = None;
                    applied.push("to-iccma");
                }
                Transform::UnionWithG2 { before } => {
                    let g2 = &case.g2;
                    if g2.n == 0 || p.g.n + g2.n > 1200 {
                        continue;
                    }
                    let off = p.g.n;
                    let mut ng = p.g.clone();
                    ng.n += g2.n;
                    for (a, b) in &g2.att {
                        ng.att.push(((off + *a as usize) as u16, (off + *b as usize) as u16));
                        p.lines.push(((off + *a as usize) as u16, (off + *b as usize) as u16));
                    }
                    p.g = ng;
                    // new nodes are declared first or last
                    if *before {
                        for o in p.order.iter_mut() {
                            *o += g2.n;
                        }
                        for k in 0..g2.n {
                            p.order.push(k);
                        }
                    } else {
                        for k in 0..g2.n {
                            p.order.push(off + k);
                        }
                    }
                    if !small_has_stable(g2) {
                        st_flip = true;
                    }
                    applied.push("union");
                }
                Transform::RemoveComponent(r) => {
                    // components of the *current* graph that hold no queried argument and are small
                    let cur = Adj::new(&p.g);
                    let qset: BTreeSet<usize> = queried.iter().filter_map(|q| map[*q]).collect();
                    let cands: Vec<Vec<usize>> = cur.components().into_iter().filter(|c| c.len() <= 12 && !c.iter().any(|x| qset.contains(x))).collect();
                    if cands.is_empty() {
                        continue;
                    }
                    let c = &cands[idx(*r, cands.len())];
                    // does the removed part have a stable extension?
                    let pos: BTreeMap<usize, usize> = c.iter().enumerate().map(|(i, x)| (*x, i)).collect();
                    let sub = AbsGraph {
                        n: c.len(),
                        att: p.g.att.iter().filter(|(a, _)| pos.contains_key(&(*a as usize))).map(|(a, b)| (pos[&(*a as usize)] as u8, pos[&(*b as usize)] as u8)).collect(),
                    };
                    let removed_has_stable = small_has_stable(&sub);
                    if !removed_has_stable {
                        // the rest may now have stable extensions: the ST relation is not determined by the base
                        st_unknown = true;
                    }
                    // rebuild without c
                    let keep: Vec<usize> = (0..p.g.n).filter(|x| !pos.contains_key(x)).collect();
                    let newidx: BTreeMap<usize, usize> = keep.iter().enumerate().map(|(i, x)| (*x, i)).collect();
                    let mut ng = BigGraph { n: keep.len(), att: vec![] };
                    for (a, b) in &p.g.att {
                        if let (Some(x), Some(y)) = (newidx.get(&(*a as usize)), newidx.get(&(*b as usize))) {
                            ng.att.push((*x as u16, *y as u16));
                        }
                    }
                    let mut nl = vec![];
                    for (a, b) in &p.lines {
                        if let (Some(x), Some(y)) = (newidx.get(&(*a as usize)), newidx.get(&(*b as usize))) {
                            nl.push((*x as u16, *y as u16));
                        }
                    }
                    // compact the declaration order
                    let mut ord: Vec<(usize, usize)> = keep.iter().map(|x| (p.order[*x], newidx[x])).collect();
                    ord.sort();
                    let mut norder = vec![0; keep.len()];
                    for (rank, (_, ni)) in ord.iter().enumerate() {
                        norder[*ni] = rank;
                    }
                    for m in map.iter_mut() {
                        *m = m.and_then(|x| newidx.get(&x).copied());
                    }
                    p.g = ng;
                    p.lines = nl;
                    p.order = norder;
                    applied.push("remove-component");
                }
            }
        }
        if p.g.n == 0 {
            return Ok(());
        }
        let tq: Vec<usize> = queried.iter().map(|q| map[*q].expect("queried arguments are never removed")).collect();
        let e1 = eval_presented(&p, &tq, case.enc_pick.wrapping_add(applied.len() as u8), "C11/transformed")?;
        rec.eval();
        let tadj = Adj::new(&p.g);
        let tgr = tadj.grounded();
        self.consistency(&tadj, &tgr, &e1, &tq, "C11/consistency")?;
        let tag = applied.join("+");
        for (i, &a) in queried.iter().enumerate() {
            for sem in ALL_SEMS {
                for q in [Q::DC, Q::DS] {
                    let before = e0.statuses[&(q, sem, a)];
                    let after = e1.statuses[&(q, sem, tq[i])];
                    let expected = if sem == Sem::ST {
                        if st_unknown {
                            continue;
                        }
                        if st_flip {
                            q == Q::DS
                        } else {
                            before
                        }
                    } else {
                        before
                    };
                    if after != expected {
                        let what = if sem == Sem::ST && st_flip && has_stable_base { "stable-semantics-after-union-with-a-framework-without-stable-extension" } else { "status-changed-by-presentation-or-unrelated-component" };
                        return Err(Failure::new(
                            format!("C11/metamorphic/{}-{}/{}", q.name(), sem.name(), what),
                            format!("argument node {}: {} before, {} after [{}] (expected {}); base text:\n{}\ntransformed text:\n{}", a, before, after, tag, expected, base.text(), p.text()),
                        ));
                    }
                }
            }
        }
        for t in &applied {
            rec.class(&format!("transform-{}", t));
        }
        rec.class(&format!("n-{:03}+", (g.n / 50) * 50));
        rec.class(&format!("components-{}", comps.len().min(9)));
        let attacked_by_gr = adj.attacked_by(&gr);
        let open = queried.iter().any(|a| !gr[*a] && !attacked_by_gr[*a]);
        if g.n >= 20 && applied.len() >= 2 && open && rec.nontrivial(&serde_json::to_string(case).unwrap()) {
            rec.sample_sized(g.n, || json!({"arguments": g.n, "attacks": g.att.len(), "components": comps.len(), "queried": queried, "transformations": applied, "base_text_head": base.text().chars().take(160).collect::<String>()}));
        }
        Ok(())
    }
}

impl Meta {
    fn consistency(&self, adj: &Adj, gr: &[bool], e: &Eval, queried: &[usize], sig: &str) -> CheckResult {
        let n = adj.n;
        // validity of the returned extensions by necessary conditions
        for sem in ALL_SEMS {
            match &e.se[&sem] {
                None => {
                    if sem != Sem::ST {
                        return Err(Failure::new(format!("{}/SE-{}/no-extension-for-a-semantics-that-always-has-one", sig, sem.name()), ""));
                    }
                }
                Some(s) => {
                    let ok = match sem {
                        Sem::ST => adj.stable(s),
                        Sem::STG => adj.conflict_free(s),
                        Sem::GR => s == gr,
                        _ => adj.complete(s),
                    };
                    if !ok {
                        return Err(Failure::new(
                            format!("{}/SE-{}/returned-set-violates-a-necessary-condition", sig, sem.name()),
                            format!("{:?}", (0..n).filter(|i| s[*i]).collect::<Vec<_>>()),
                        ));
                    }
                }
            }
        }
        let se = |sem: Sem| e.se[&sem].as_ref();
        // GR within ID within the SE-PR answer
        if let (Some(id), Some(pr)) = (se(Sem::ID), se(Sem::PR)) {
            for a in 0..n {
                if gr[a] && !id[a] {
                    return Err(Failure::new(format!("{}/grounded-not-within-ideal", sig), format!("node {}", a)));
                }
                if id[a] && !pr[a] {
                    return Err(Failure::new(format!("{}/ideal-not-within-a-preferred-extension", sig), format!("node {}", a)));
                }
            }
        }
        if let Some(co) = se(Sem::CO) {
            if co != gr {
                // SE-CO may be any complete extension; it must contain the grounded one
                if (0..n).any(|a| gr[a] && !co[a]) {
                    return Err(Failure::new(format!("{}/complete-extension-without-grounded", sig), ""));
                }
            }
        }
        let has_st = se(Sem::ST).is_some();
        for &a in queried {
            let st = |q: Q, s: Sem| e.statuses[&(q, s, a)];
            if st(Q::DC, Sem::CO) != st(Q::DC, Sem::PR) {
                return Err(Failure::new(format!("{}/DC-CO-differs-from-DC-PR", sig), format!("node {}", a)));
            }
            if st(Q::DS, Sem::CO) != gr[a] || st(Q::DC, Sem::GR) != gr[a] || st(Q::DS, Sem::GR) != gr[a] {
                return Err(Failure::new(format!("{}/grounded-membership-differs-between-DS-CO-DC-GR-DS-GR", sig), format!("node {}", a)));
            }
            for s in ALL_SEMS {
                let exists = s != Sem::ST || has_st;
                if exists && st(Q::DS, s) && !st(Q::DC, s) {
                    return Err(Failure::new(format!("{}/skeptical-without-credulous/{}", sig, s.name()), format!("node {}", a)));
                }
                if !exists && (!st(Q::DS, s) || st(Q::DC, s)) {
                    return Err(Failure::new(format!("{}/no-stable-extension-but-DS-NO-or-DC-YES", sig), format!("node {}", a)));
                }
            }
            if has_st {
                for q in [Q::DC, Q::DS] {
                    if st(q, Sem::ST) != st(q, Sem::SST) || st(q, Sem::ST) != st(q, Sem::STG) {
                        return Err(Failure::new(format!("{}/ST-SST-STG-disagree-although-a-stable-extension-exists/{}", sig, q.name()), format!("node {}", a)));
                    }
                }
            }
            // grounded members are accepted everywhere; arguments it attacks nowhere
            if gr[a] {
                for s in ALL_SEMS {
                    if (s != Sem::ST || has_st) && s != Sem::STG && (!st(Q::DC, s) || !st(Q::DS, s)) {
                        return Err(Failure::new(format!("{}/grounded-argument-not-accepted/{}", sig, s.name()), format!("node {}", a)));
                    }
                }
            }
            // skeptical PR acceptance implies membership in the ideal... (ID within intersection of PR): DS-ID => DS-PR
            if st(Q::DS, Sem::ID) && !st(Q::DS, Sem::PR) {
                return Err(Failure::new(format!("{}/ideal-argument-not-skeptically-preferred", sig), format!("node {}", a)));
            }
            if st(Q::DC, Sem::ID) != st(Q::DS, Sem::ID) {
                return Err(Failure::new(format!("{}/DC-ID-differs-from-DS-ID", sig), format!("node {}", a)));
            }
            // DS-PR => DS-SST (SST extensions are preferred); DC-SST => DC-PR
            if st(Q::DS, Sem::PR) && !st(Q::DS, Sem::SST) {
                return Err(Failure::new(format!("{}/skeptically-preferred-but-not-skeptically-semi-stable", sig), format!("node {}", a)));
            }
            if st(Q::DC, Sem::SST) && !st(Q::DC, Sem::PR) {
                return Err(Failure::new(format!("{}/credulously-semi-stable-but-not-credulously-preferred", sig), format!("node {}", a)));
            }
        }
        Ok(())
    }
}


/// C04 on frameworks beyond the brute-force oracle: certificates are judged by polynomial
/// necessary conditions (conflict-free; complete for CO/PR/SST/ID; stable for ST; contains / omits
/// the argument; members are the framework's own arguments, once each; present exactly when promised).
pub fn certificates_on_big(case: &MetaCase) -> Result<(usize, usize), Failure> {
    let g = assemble(case);
    if g.n == 0 || g.n > 320 {
        return Ok((0, 0));
    }
    let adj = Adj::new(&g);
    let queried: Vec<usize> = {
        let mut q: Vec<usize> = case.queried.iter().map(|r| idx(*r, g.n)).collect();
        q.sort();
        q.dedup();
        q
    };
    let p = Presented::new(g.clone());
    let text = p.text();
    let af = Iccma23Reader::default().read(&mut text.as_bytes()).map_err(|e| Failure::new("C04/big/reader-rejected-generated-file", e.to_string()))?;
    let mut checked = 0;
    for sem in ALL_SEMS {
        for q in [Q::DC, Q::DS] {
            let encs = encodings_for(q, sem);
            let enc = encs[case.enc_pick as usize % encs.len()];
            let enc = if enc == Enc::ExpCo { Enc::AuxCo } else { enc };
            for &a in &queried {
                let sig = format!("C04/big/{}-{}/{}", q.name(), sem.name(), enc.name());
                let shared = Shared::new(20_000);
                let lab = a + 1;
                let (status, cert) = guard(|| {
                    let mut s = SolverObj::new(&af, kind_for(q, sem), enc, satwrap::factory(&shared));
                    if q == Q::DC {
                        s.dc(&[&lab], true)
                    } else {
                        s.ds(&[&lab], true)
                    }
                })
                .map_err(|p| Failure::new(format!("{}/panic", sig), p))?;
                let promised = if q == Q::DC { status } else { !status };
                match (promised, cert) {
                    (false, None) => {}
                    (false, Some(_)) => return Err(Failure::new(format!("{}/unexpected-certificate", sig), format!("argument {} of {}", lab, g.n))),
                    (true, None) => return Err(Failure::new(format!("{}/missing-certificate", sig), format!("argument {} of {}", lab, g.n))),
                    (true, Some(c)) => {
                        let mut set = vec![false; g.n];
                        for m in &c {
                            let i = m.label - 1;
                            let own = af.argument_set().get_argument(&m.label).map(|x| x.id()).ok();
                            if m.label == 0 || i >= g.n || set[i] || own != Some(m.id) {
                                return Err(Failure::new(format!("{}/foreign-or-duplicate-member", sig), format!("member {} (id {})", m.label, m.id)));
                            }
                            set[i] = true;
                        }
                        let ok = match sem {
                            Sem::ST => adj.stable(&set),
                            Sem::STG => adj.conflict_free(&set),
                            _ => adj.complete(&set),
                        };
                        if !ok {
                            return Err(Failure::new(
                                format!("{}/certificate-violates-a-necessary-condition", sig),
                                format!("argument {}: certificate {:?}\n{}", lab, c.iter().map(|m| m.label).collect::<Vec<_>>(), text),
                            ));
                        }
                        if (q == Q::DC) != set[a] {
                            return Err(Failure::new(format!("{}/certificate-membership-wrong", sig), format!("argument {}\n{}", lab, text)));
                        }
                        checked += 1;
                    }
                }
            }
        }
    }
    Ok((g.n, checked))
}

pub fn meta_strategy(tier: Tier) -> BoxedStrategy<MetaCase> {
    Meta.strategy(tier)
}


/// C06 on medium-size frameworks (beyond the brute-force oracle): the same problems through the
/// embedded backend and through an external solver process must give the same statuses, and every
/// returned extension must satisfy the polynomial necessary conditions.
pub fn backends_agree_on_medium(case: &MetaCase, external: &crate::satwrap::Backend, bname: &str, picks: &[u8]) -> Result<(usize, usize), Failure> {
    let mut c2 = case.clone();
    c2.blocks.truncate(24);
    let g = assemble(&c2);
    if g.n == 0 {
        return Ok((0, 0));
    }
    let adj = Adj::new(&g);
    let queried: Vec<usize> = {
        let mut q: Vec<usize> = case.queried.iter().take(3).map(|r| idx(*r, g.n)).collect();
        q.sort();
        q.dedup();
        q
    };
    let text = Presented::new(g.clone()).text();
    let af = Iccma23Reader::default().read(&mut text.as_bytes()).map_err(|e| Failure::new("C06/medium/reader-rejected-generated-file", e.to_string()))?;
    let mut compared = 0;
    let problems: Vec<(Q, Sem)> = [Q::SE, Q::DC, Q::DS].iter().flat_map(|q| ALL_SEMS.iter().map(move |s| (*q, *s))).collect();
    for (k, p) in picks.iter().enumerate() {
        let (q, sem) = problems[*p as usize % problems.len()];
        if kind_for(q, sem) == crate::queries::Kind::Gr {
            continue;
        }
        let encs = encodings_for(q, sem);
        let enc = encs[(case.enc_pick as usize + k) % encs.len()];
        let enc = if enc == Enc::ExpCo { Enc::Hybrid } else { enc };
        let sig = format!("C06/medium/{}-{}/{}/embedded-vs-{}", q.name(), sem.name(), enc.name(), bname);
        let args: Vec<usize> = if q == Q::SE { vec![0] } else { queried.clone() };
        for a in args {
            let lab = a + 1;
            let run = |backend: &crate::satwrap::Backend| -> Result<(Option<bool>, Option<Vec<bool>>), String> {
                let shared = Shared::new(3_000);
                guard(|| {
                    let mut s = SolverObj::new(&af, kind_for(q, sem), enc, satwrap::factory_with(&shared, backend));
                    let (st, ext) = match q {
                        Q::SE => (None, s.se()),
                        Q::DC => {
                            let (b, c) = s.dc(&[&lab], true);
                            (Some(b), c)
                        }
                        Q::DS => {
                            let (b, c) = s.ds(&[&lab], true);
                            (Some(b), c)
                        }
                    };
                    (st, ext.map(|e| {
                        let mut v = vec![false; g.n];
                        for m in &e {
                            if m.label >= 1 && m.label <= g.n {
                                v[m.label - 1] = true;
                            }
                        }
                        v
                    }))
                })
            };
            let emb = run(&crate::satwrap::embedded()).map_err(|p| Failure::new(format!("{}/embedded-panic", sig), p))?;
            let ext = run(external).map_err(|p| Failure::new(format!("{}/external-panic", sig), format!("{}\n{}", p, text)))?;
            compared += 1;
            if emb.0 != ext.0 || emb.1.is_some() != ext.1.is_some() {
                return Err(Failure::new(
                    format!("{}/answers-differ-between-backends", sig),
                    format!("argument {}: embedded {:?}/{} external {:?}/{}\n{}", lab, emb.0, emb.1.is_some(), ext.0, ext.1.is_some(), text),
                ));
            }
            for (who, set) in [("embedded", &emb.1), ("external", &ext.1)] {
                if let Some(set) = set {
                    let ok = match sem {
                        Sem::ST => adj.stable(set),
                        Sem::STG => adj.conflict_free(set),
                        _ => adj.complete(set),
                    };
                    if !ok {
                        return Err(Failure::new(
                            format!("{}/{}-set-violates-a-necessary-condition", sig, who),
                            format!("argument {}: {:?}\n{}", lab, (0..g.n).filter(|i| set[*i]).map(|i| i + 1).collect::<Vec<_>>(), text),
                        ));
                    }
                }
            }
        }
    }
    Ok((g.n, compared))
}
