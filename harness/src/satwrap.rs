//! Wrappers around the public `SatSolver` trait: recording, counting (with cap) and
//! fault injection. All delegate to a real backend.

use crustabri::sat::{self, Literal, SatSolver, SatSolverFactoryFn, SolvingListener, SolvingResult};
use std::cell::{Cell, RefCell};
use std::rc::Rc;

/// Panic payload used when the call cap is exceeded.
pub struct CapExceeded(pub usize);

#[derive(Default, Clone, Debug)]
pub struct InstanceLog {
    pub clauses: Vec<Vec<isize>>,
    pub reserved: usize,
    /// (assumptions, result: Some(model projected on all vars as Vec<Option<bool>>) | None for unsat, was_unknown)
    pub calls: Vec<CallLog>,
}

#[derive(Clone, Debug)]
pub struct CallLog {
    pub assumptions: Vec<isize>,
    pub n_clauses_at_call: usize,
    pub n_vars_at_call: usize,
    pub result: CallResult,
}

#[derive(Clone, Debug, PartialEq, Eq)]
pub enum CallResult {
    Sat(Vec<Option<bool>>),
    Unsat,
    Unknown,
}

pub struct Shared {
    pub calls: Cell<usize>,
    pub cap: Cell<usize>,
    pub fail_at: Cell<usize>,
    pub record: Cell<bool>,
    pub instances: RefCell<Vec<InstanceLog>>,
}

impl Shared {
    pub fn new(cap: usize) -> Rc<Shared> {
        Rc::new(Shared {
            calls: Cell::new(0),
            cap: Cell::new(cap),
            fail_at: Cell::new(usize::MAX),
            record: Cell::new(false),
            instances: RefCell::new(vec![]),
        })
    }
    pub fn recording(cap: usize) -> Rc<Shared> {
        let s = Shared::new(cap);
        s.record.set(true);
        s
    }
    pub fn faulty(cap: usize, fail_at: usize) -> Rc<Shared> {
        let s = Shared::new(cap);
        s.fail_at.set(fail_at);
        s
    }
    pub fn n_calls(&self) -> usize {
        self.calls.get()
    }
}

pub struct Wrapped {
    inner: Box<dyn SatSolver>,
    shared: Rc<Shared>,
    idx: usize,
    n_clauses: usize,
}

impl SatSolver for Wrapped {
    fn add_clause(&mut self, cl: Vec<Literal>) {
        self.n_clauses += 1;
        if self.shared.record.get() {
            self.shared.instances.borrow_mut()[self.idx]
                .clauses
                .push(cl.iter().map(|l| isize::from(*l)).collect());
        }
        self.inner.add_clause(cl)
    }
    fn solve(&mut self) -> SolvingResult {
        self.solve_under_assumptions(&[])
    }
    fn solve_under_assumptions(&mut self, a: &[Literal]) -> SolvingResult {
        let k = self.shared.calls.get() + 1;
        self.shared.calls.set(k);
        if k > self.shared.cap.get() {
            std::panic::panic_any(CapExceeded(k));
        }
        let r = if k == self.shared.fail_at.get() {
            SolvingResult::Unknown
        } else {
            self.inner.solve_under_assumptions(a)
        };
        if self.shared.record.get() {
            let nv = self.inner.n_vars();
            let res = match &r {
                SolvingResult::Satisfiable(m) => {
                    // `Assignment::iter` covers exactly the variables the assignment knows.
                    CallResult::Sat(m.iter().map(|(_, v)| v).collect())
                }
                SolvingResult::Unsatisfiable => CallResult::Unsat,
                SolvingResult::Unknown => CallResult::Unknown,
            };
            self.shared.instances.borrow_mut()[self.idx].calls.push(CallLog {
                assumptions: a.iter().map(|l| isize::from(*l)).collect(),
                n_clauses_at_call: self.n_clauses,
                n_vars_at_call: nv,
                result: res,
            });
        }
        r
    }
    fn n_vars(&self) -> usize {
        self.inner.n_vars()
    }
    fn add_listener(&mut self, l: Box<dyn SolvingListener>) {
        self.inner.add_listener(l)
    }
    fn reserve(&mut self, n: usize) {
        if self.shared.record.get() {
            let mut i = self.shared.instances.borrow_mut();
            let e = &mut i[self.idx];
            e.reserved = e.reserved.max(n);
        }
        self.inner.reserve(n)
    }
}

pub type Backend = Rc<dyn Fn() -> Box<dyn SatSolver>>;

pub fn embedded() -> Backend {
    Rc::new(sat::default_solver)
}

pub fn external(program: String, options: Vec<String>) -> Backend {
    Rc::new(move || Box::new(sat::ExternalSatSolver::new(program.clone(), options.clone())))
}

pub fn factory_with(shared: &Rc<Shared>, backend: &Backend) -> Box<SatSolverFactoryFn> {
    let shared = Rc::clone(shared);
    let backend = Rc::clone(backend);
    Box::new(move || {
        let idx = {
            let mut i = shared.instances.borrow_mut();
            i.push(InstanceLog::default());
            i.len() - 1
        };
        Box::new(Wrapped { inner: backend(), shared: Rc::clone(&shared), idx, n_clauses: 0 })
    })
}

thread_local! {
    static CHOICE: Cell<Option<(u64, u8)>> = const { Cell::new(None) };
}

/// While alive, `factory()` on this thread hands out the embedded backend behind a `Chooser`.
pub struct ChoiceScope(Option<(u64, u8)>);

impl ChoiceScope {
    pub fn enter(c: Option<(u64, u8)>) -> ChoiceScope {
        ChoiceScope(CHOICE.with(|x| x.replace(c)))
    }
    /// One case in three (by a hash of its serialised form) runs with chosen models.
    pub fn for_case<C: serde::Serialize>(case: &C) -> (ChoiceScope, bool) {
        use std::hash::{Hash, Hasher};
        let mut h = std::collections::hash_map::DefaultHasher::new();
        serde_json::to_string(case).unwrap().hash(&mut h);
        let v = h.finish();
        let on = v % 3 == 0;
        (ChoiceScope::enter(if on { Some((v >> 8, ((v >> 2) % 3) as u8)) } else { None }), on)
    }
}

impl Drop for ChoiceScope {
    fn drop(&mut self) {
        CHOICE.with(|x| x.set(self.0));
    }
}

pub fn factory(shared: &Rc<Shared>) -> Box<SatSolverFactoryFn> {
    match CHOICE.with(|x| x.get()) {
        Some((seed, bias)) => factory_with(shared, &choosy(seed, bias, 64)),
        None => factory_with(shared, &embedded()),
    }
}

pub fn wrap(shared: &Rc<Shared>, inner: Box<dyn SatSolver>) -> Wrapped {
    let idx = {
        let mut i = shared.instances.borrow_mut();
        i.push(InstanceLog::default());
        i.len() - 1
    };
    Wrapped { inner, shared: Rc::clone(shared), idx, n_clauses: 0 }
}

/// Default cap on SAT calls per query for checks that are not about the call bound:
/// far above anything a correct computation on <= 13 arguments needs.
pub const DEFAULT_CAP: usize = 30_000;

/// A backend that quantifies over the SAT solver's freedom of choice: whenever the real
/// backend reports a model, the chooser walks through the variables in a pseudo-random
/// order (a pure function of `seed` and of the number of calls made so far) and tries to
/// impose a pseudo-random polarity on each of them, keeping a polarity whenever the
/// formula stays satisfiable under the caller's assumptions. The model handed back is a
/// genuine model of the clauses under the assumptions, but not the one a default-phase
/// CDCL solver would pick (which is nearly always a maximal one on these encodings).
/// `Unsatisfiable` and `Unknown` are passed through unchanged.
pub struct Chooser {
    inner: Box<dyn SatSolver>,
    seed: u64,
    calls: u64,
    /// at most this many additional backend calls per reported model
    budget: usize,
    /// 0: random polarity per variable; 1: prefer false; 2: prefer true
    bias: u8,
}

fn mix(mut x: u64) -> u64 {
    x = x.wrapping_add(0x9E37_79B9_7F4A_7C15);
    x = (x ^ (x >> 30)).wrapping_mul(0xBF58_476D_1CE4_E5B9);
    x = (x ^ (x >> 27)).wrapping_mul(0x94D0_49BB_1331_11EB);
    x ^ (x >> 31)
}

impl SatSolver for Chooser {
    fn add_clause(&mut self, cl: Vec<Literal>) {
        self.inner.add_clause(cl)
    }
    fn solve(&mut self) -> SolvingResult {
        self.solve_under_assumptions(&[])
    }
    fn solve_under_assumptions(&mut self, a: &[Literal]) -> SolvingResult {
        self.calls += 1;
        let mut best = self.inner.solve_under_assumptions(a);
        let nv = self.inner.n_vars();
        if nv == 0 || !matches!(best, SolvingResult::Satisfiable(_)) {
            return best;
        }
        let mut st = mix(self.seed ^ self.calls.wrapping_mul(0x1000_0000_01B3));
        // a pseudo-random permutation of the variables (Fisher-Yates)
        let mut order: Vec<usize> = (1..=nv).collect();
        for i in (1..nv).rev() {
            st = mix(st);
            let j = (st % (i as u64 + 1)) as usize;
            order.swap(i, j);
        }
        let mut fixed: Vec<Literal> = a.to_vec();
        let mut extra = 0usize;
        let values = |r: &SolvingResult| -> Vec<Option<bool>> {
            match r {
                SolvingResult::Satisfiable(m) => m.iter().map(|(_, v)| v).collect(),
                _ => vec![],
            }
        };
        let mut vals = values(&best);
        for v in order {
            st = mix(st);
            let want = match self.bias {
                1 => st % 8 == 0,
                2 => st % 8 != 0,
                _ => st & 1 == 1,
            };
            let lit = Literal::from(if want { v as isize } else { -(v as isize) });
            let cur = vals.get(v - 1).copied().flatten();
            if cur == Some(want) {
                fixed.push(lit);
                continue;
            }
            // large formulas: fewer re-solves per reported model
            if extra >= self.budget.min((4_000 / nv).max(4)) {
                break;
            }
            extra += 1;
            fixed.push(lit);
            match self.inner.solve_under_assumptions(&fixed) {
                r @ SolvingResult::Satisfiable(_) => {
                    vals = values(&r);
                    best = r;
                }
                _ => {
                    fixed.pop();
                    // the current model has the other polarity (or leaves the variable free)
                    if cur.is_some() {
                        fixed.push(lit.negate());
                    }
                }
            }
        }
        best
    }
    fn n_vars(&self) -> usize {
        self.inner.n_vars()
    }
    fn add_listener(&mut self, l: Box<dyn SolvingListener>) {
        self.inner.add_listener(l)
    }
    fn reserve(&mut self, n: usize) {
        self.inner.reserve(n)
    }
}

/// The embedded backend behind a `Chooser`.
pub fn choosy(seed: u64, bias: u8, budget: usize) -> Backend {
    let n = Rc::new(Cell::new(0u64));
    Rc::new(move || {
        n.set(n.get() + 1);
        Box::new(Chooser { inner: sat::default_solver(), seed: mix(seed ^ n.get()), calls: 0, budget, bias })
    })
}
