//! Wrappers around the public `SatSolver` trait: recording, counting (with cap) and
//! fault injection. All delegate to a real backend.

use crustabri::sat::{self, Literal, SatSolver, SatSolverFactoryFn, SolvingListener, SolvingResult};
use std::cell::{Cell, RefCell};
use std::rc::Rc;

/// Panic payload used when the call cap is exceeded.
pub struct CapExceeded(pub usize);

#[derive(Default, Clone, Debug)]
pub struct InstanceLog {
    pub clauses: Vec<Vec<isize>>,
    pub reserved: usize,
    /// (assumptions, result: Some(model projected on all vars as Vec<Option<bool>>) | None for unsat, was_unknown)
    pub calls: Vec<CallLog>,
}

#[derive(Clone, Debug)]
pub struct CallLog {
    pub assumptions: Vec<isize>,
    pub n_clauses_at_call: usize,
    pub n_vars_at_call: usize,
    pub result: CallResult,
}

#[derive(Clone, Debug, PartialEq, Eq)]
pub enum CallResult {
    Sat(Vec<Option<bool>>),
    Unsat,
    Unknown,
}

pub struct Shared {
    pub calls: Cell<usize>,
    pub cap: Cell<usize>,
    pub fail_at: Cell<usize>,
    pub record: Cell<bool>,
    pub instances: RefCell<Vec<InstanceLog>>,
}

impl Shared {
    pub fn new(cap: usize) -> Rc<Shared> {
        Rc::new(Shared {
            calls: Cell::new(0),
            cap: Cell::new(cap),
            fail_at: Cell::new(usize::MAX),
            record: Cell::new(false),
            instances: RefCell::new(vec![]),
        })
    }
    pub fn recording(cap: usize) -> Rc<Shared> {
        let s = Shared::new(cap);
        s.record.set(true);
        s
    }
    pub fn faulty(cap: usize, fail_at: usize) -> Rc<Shared> {
        let s = Shared::new(cap);
        s.fail_at.set(fail_at);
        s
    }
    pub fn n_calls(&self) -> usize {
        self.calls.get()
    }
}

pub struct Wrapped {
    inner: Box<dyn SatSolver>,
    shared: Rc<Shared>,
    idx: usize,
    n_clauses: usize,
}

impl SatSolver for Wrapped {
    fn add_clause(&mut self, cl: Vec<Literal>) {
        self.n_clauses += 1;
        if self.shared.record.get() {
            self.shared.instances.borrow_mut()[self.idx]
                .clauses
                .push(cl.iter().map(|l| isize::from(*l)).collect());
        }
        self.inner.add_clause(cl)
    }
    fn solve(&mut self) -> SolvingResult {
        self.solve_under_assumptions(&[])
    }
    fn solve_under_assumptions(&mut self, a: &[Literal]) -> SolvingResult {
        let k = self.shared.calls.get() + 1;
        self.shared.calls.set(k);
        if k > self.shared.cap.get() {
            std::panic::panic_any(CapExceeded(k));
        }
        let r = if k == self.shared.fail_at.get() {
            SolvingResult::Unknown
        } else {
            self.inner.solve_under_assumptions(a)
        };
        if self.shared.record.get() {
            let nv = self.inner.n_vars();
            let res = match &r {
                SolvingResult::Satisfiable(m) => {
                    // `Assignment::iter` covers exactly the variables the assignment knows.
                    CallResult::Sat(m.iter().map(|(_, v)| v).collect())
                }
                SolvingResult::Unsatisfiable => CallResult::Unsat,
                SolvingResult::Unknown => CallResult::Unknown,
            };
            self.shared.instances.borrow_mut()[self.idx].calls.push(CallLog {
                assumptions: a.iter().map(|l| isize::from(*l)).collect(),
                n_clauses_at_call: self.n_clauses,
                n_vars_at_call: nv,
                result: res,
            });
        }
        r
    }
    fn n_vars(&self) -> usize {
        self.inner.n_vars()
    }
    fn add_listener(&mut self, l: Box<dyn SolvingListener>) {
        self.inner.add_listener(l)
    }
    fn reserve(&mut self, n: usize) {
        if self.shared.record.get() {
            let mut i = self.shared.instances.borrow_mut();
            let e = &mut i[self.idx];
            e.reserved = e.reserved.max(n);
        }
        self.inner.reserve(n)
    }
}

pub type Backend = Rc<dyn Fn() -> Box<dyn SatSolver>>;

pub fn embedded() -> Backend {
    Rc::new(sat::default_solver)
}

pub fn external(program: String, options: Vec<String>) -> Backend {
    Rc::new(move || Box::new(sat::ExternalSatSolver::new(program.clone(), options.clone())))
}

pub fn factory_with(shared: &Rc<Shared>, backend: &Backend) -> Box<SatSolverFactoryFn> {
    let shared = Rc::clone(shared);
    let backend = Rc::clone(backend);
    Box::new(move || {
        let idx = {
            let mut i = shared.instances.borrow_mut();
            i.push(InstanceLog::default());
            i.len() - 1
        };
        Box::new(Wrapped { inner: backend(), shared: Rc::clone(&shared), idx, n_clauses: 0 })
    })
}

pub fn factory(shared: &Rc<Shared>) -> Box<SatSolverFactoryFn> {
    factory_with(shared, &embedded())
}

pub fn wrap(shared: &Rc<Shared>, inner: Box<dyn SatSolver>) -> Wrapped {
    let idx = {
        let mut i = shared.instances.borrow_mut();
        i.push(InstanceLog::default());
        i.len() - 1
    };
    Wrapped { inner, shared: Rc::clone(shared), idx, n_clauses: 0 }
}

/// Default cap on SAT calls per query for checks that are not about the call bound:
/// far above anything a correct computation on <= 13 arguments needs.
pub const DEFAULT_CAP: usize = 30_000;
