//! Management of the harness-owned external solver `fake_sat` (one configuration and log
//! file per worker thread) and detection of third-party solvers.

use crate::satwrap::{external, Backend};
use serde_json::Value;
use std::cell::RefCell;
use std::path::PathBuf;
use std::sync::Arc;

pub struct FakeSat {
    pub dir: PathBuf,
    pub cfg_path: PathBuf,
    pub log_path: PathBuf,
    pub exe: String,
}

pub fn exe_sibling(name: &str) -> String {
    let me = std::env::current_exe().expect("current_exe");
    me.parent().unwrap().join(name).to_string_lossy().to_string()
}

pub fn scratch_root() -> PathBuf {
    let verif = std::env::var("VERIF_DIR").unwrap_or_else(|_| "/verif".to_string());
    PathBuf::from(verif).join("target").join("scratch")
}

thread_local! {
    static FAKE: RefCell<Option<Arc<FakeSat>>> = const { RefCell::new(None) };
}

static COUNTER: std::sync::atomic::AtomicUsize = std::sync::atomic::AtomicUsize::new(0);

impl FakeSat {
    /// The per-thread instance.
    pub fn get() -> Arc<FakeSat> {
        FAKE.with(|f| {
            let mut f = f.borrow_mut();
            if f.is_none() {
                let k = COUNTER.fetch_add(1, std::sync::atomic::Ordering::SeqCst);
                // the directory name contains a space on purpose: every option value and file path
                // handed to the command line front end then contains whitespace
                let dir = scratch_root().join(format!("fs-{}-{} with space", std::process::id(), k));
                std::fs::create_dir_all(&dir).expect("cannot create scratch dir");
                *f = Some(Arc::new(FakeSat {
                    cfg_path: dir.join("cfg.json"),
                    log_path: dir.join("log.jsonl"),
                    dir,
                    exe: exe_sibling("fake_sat"),
                }));
            }
            Arc::clone(f.as_ref().unwrap())
        })
    }

    /// Writes the configuration (the log path is filled in) and clears the log.
    pub fn configure(&self, mut cfg: Value) {
        cfg["log"] = Value::String(self.log_path.to_string_lossy().to_string());
        std::fs::write(&self.cfg_path, cfg.to_string()).expect("cannot write fake_sat config");
        let _ = std::fs::remove_file(&self.log_path);
    }

    pub fn option(&self) -> String {
        format!("cfg={}", self.cfg_path.display())
    }

    pub fn backend(&self) -> Backend {
        external(self.exe.clone(), vec![self.option()])
    }

    pub fn read_log(&self) -> Vec<Value> {
        std::fs::read_to_string(&self.log_path)
            .map(|s| s.lines().filter_map(|l| serde_json::from_str(l).ok()).collect())
            .unwrap_or_default()
    }

    /// Problems reported by the strict DIMACS validator since the last `configure`.
    pub fn illformed(&self) -> Vec<String> {
        self.read_log()
            .iter()
            .filter(|e| e["event"] == "parsed" && e["wellformed"] == false)
            .map(|e| format!("{} | instance: {:?}", e["problem"].as_str().unwrap_or(""), e["text"].as_str().unwrap_or("")))
            .collect()
    }
}

impl Drop for FakeSat {
    fn drop(&mut self) {
        let _ = std::fs::remove_dir_all(&self.dir);
    }
}

/// Removes scratch directories left behind by processes that no longer exist.
pub fn cleanup_stale_scratch() {
    if let Ok(rd) = std::fs::read_dir(scratch_root()) {
        for e in rd.flatten() {
            let name = e.file_name().to_string_lossy().to_string();
            let pid = name.split('-').nth(1).and_then(|p| p.parse::<u32>().ok());
            if let Some(pid) = pid {
                if !std::path::Path::new(&format!("/proc/{}", pid)).exists() {
                    let _ = std::fs::remove_dir_all(e.path());
                }
            }
        }
    }
}

pub fn cleanup_scratch() {
    let root = scratch_root();
    if let Ok(rd) = std::fs::read_dir(&root) {
        let me = format!("fs-{}-", std::process::id());
        for e in rd.flatten() {
            if e.file_name().to_string_lossy().starts_with(&me) {
                let _ = std::fs::remove_dir_all(e.path());
            }
        }
    }
}

/// Path of `kissat` if it is installed (strict about the DIMACS header, reads stdin).
pub fn kissat() -> Option<String> {
    for dir in std::env::var("PATH").unwrap_or_default().split(':') {
        let p = PathBuf::from(dir).join("kissat");
        if p.is_file() {
            return Some(p.to_string_lossy().to_string());
        }
    }
    None
}

pub fn kissat_backend() -> Option<Backend> {
    kissat().map(|k| external(k, vec!["-q".to_string()]))
}

pub enum Watched<R> {
    Done(R),
    /// The call did not return and the child's log shows it blocked writing more than a pipe's capacity.
    Deadlock(String),
    /// The call did not return for another reason: inconclusive.
    Timeout(String),
}

fn kill_pid(pid: u64) {
    let _ = std::process::Command::new("kill")
        .arg("-9")
        .arg(pid.to_string())
        .stderr(std::process::Stdio::null())
        .status();
}

/// Runs `f` on a helper thread and waits at most `secs` seconds. On expiry the children named in the
/// fake_sat log are killed so that the helper thread is released.
pub fn with_watchdog<R: Send + 'static>(fake: &Arc<FakeSat>, secs: u64, f: impl FnOnce() -> R + Send + 'static) -> Watched<R> {
    let (tx, rx) = std::sync::mpsc::channel();
    let handle = std::thread::spawn(move || {
        let r = f();
        let _ = tx.send(r);
    });
    match rx.recv_timeout(std::time::Duration::from_secs(secs)) {
        Ok(r) => {
            let _ = handle.join();
            Watched::Done(r)
        }
        Err(std::sync::mpsc::RecvTimeoutError::Disconnected) => match handle.join() {
            Err(p) => std::panic::resume_unwind(p),
            Ok(()) => Watched::Timeout("helper thread ended without a result".into()),
        },
        Err(std::sync::mpsc::RecvTimeoutError::Timeout) => {
            let log = fake.read_log();
            // last invocation: did it announce a write that never completed?
            let last_inv = log.iter().filter_map(|e| e["inv"].as_u64()).max();
            let mut verdict = Watched::Timeout(format!("no result after {} s; log tail {:?}", secs, log.last()));
            if let Some(inv) = last_inv {
                let evs: Vec<&Value> = log.iter().filter(|e| e["inv"].as_u64() == Some(inv)).collect();
                let done = evs.iter().any(|e| e["event"] == "done");
                let pending = evs
                    .iter()
                    .filter(|e| e["event"] == "writing")
                    .filter(|w| !evs.iter().any(|e| e["event"] == "written" && e["what"] == w["what"]))
                    .filter_map(|w| w["bytes"].as_u64())
                    .max();
                // the kernel's view: is the child asleep in a write to a pipe?
                let child_pid = evs.iter().filter_map(|e| e["pid"].as_u64()).next();
                let wchan = child_pid
                    .and_then(|p| std::fs::read_to_string(format!("/proc/{}/wchan", p)).ok())
                    .unwrap_or_default();
                if !done && wchan.contains("pipe_write") {
                    verdict = Watched::Deadlock(format!(
                        "call did not return within {} s while the child (invocation {}, pid {:?}) sleeps in {} on one of its output pipes (stdout or stderr): nobody reads what the solver prints",
                        secs, inv, child_pid, wchan.trim()
                    ));
                }
                if !done && !matches!(verdict, Watched::Deadlock(_)) {
                    if let Some(b) = pending {
                        if b > 65536 {
                            verdict = Watched::Deadlock(format!(
                                "call did not return within {} s while the child (invocation {}) is blocked writing {} bytes to its stdout (pipe capacity 65536) and the parent is not consuming",
                                secs, inv, b
                            ));
                        }
                    }
                }
                if let Some(pid) = evs.iter().filter_map(|e| e["pid"].as_u64()).next() {
                    kill_pid(pid);
                }
            }
            // give the helper a moment to unwind, then abandon it
            let t0 = std::time::Instant::now();
            while !handle.is_finished() && t0.elapsed().as_secs() < 10 {
                std::thread::sleep(std::time::Duration::from_millis(50));
                // a fresh child may have been spawned meanwhile: kill those too
                for e in fake.read_log().iter() {
                    if e["event"] == "start" {
                        if let Some(pid) = e["pid"].as_u64() {
                            let _ = pid;
                        }
                    }
                }
            }
            if handle.is_finished() {
                let _ = handle.join();
            }
            verdict
        }
    }
}
