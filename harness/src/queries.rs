//! Uniform access to the static solvers, following the selection logic of `crustabri solve`.

use crate::oracle::Sem;
use crustabri::aa::{AAFramework, Argument};
use crustabri::encodings::{
    aux_var_constraints_encoder, exp_constraints_encoder, ConstraintsEncoder, DefaultStableConstraintsEncoder,
    HybridCompleteConstraintsEncoder,
};
use crustabri::sat::SatSolverFactoryFn;
use crustabri::solvers::*;
use crustabri::utils::LabelType;
use serde::{Deserialize, Serialize};
use std::collections::HashMap;

#[derive(Clone, Copy, Debug, PartialEq, Eq, Hash, PartialOrd, Ord, Serialize, Deserialize)]
pub enum Enc {
    AuxCo,
    AuxAdm,
    AuxCf,
    ExpCo,
    ExpCf,
    Hybrid,
    Stable,
    /// solver that takes no encoder (GR)
    NoEnc,
}

impl Enc {
    pub fn name(self) -> &'static str {
        match self {
            Enc::AuxCo => "aux_var-complete",
            Enc::AuxAdm => "aux_var-admissibility",
            Enc::AuxCf => "aux_var-conflict-freeness",
            Enc::ExpCo => "exp-complete",
            Enc::ExpCf => "exp-conflict-freeness",
            Enc::Hybrid => "hybrid-complete",
            Enc::Stable => "stable-default",
            Enc::NoEnc => "none",
        }
    }
    /// The `--encoding` value that selects it on the command line.
    pub fn cli(self) -> Option<&'static str> {
        match self {
            Enc::AuxCo | Enc::AuxAdm | Enc::AuxCf => Some("aux_var"),
            Enc::ExpCo | Enc::ExpCf => Some("exp"),
            Enc::Hybrid => Some("hybrid"),
            _ => None,
        }
    }
}

pub fn encoder<T: LabelType>(e: Enc) -> Box<dyn ConstraintsEncoder<T>> {
    match e {
        Enc::AuxCo => Box::new(aux_var_constraints_encoder::new_for_complete_semantics()),
        Enc::AuxAdm => Box::new(aux_var_constraints_encoder::new_for_admissibility()),
        Enc::AuxCf => Box::new(aux_var_constraints_encoder::new_for_conflict_freeness()),
        Enc::ExpCo => Box::new(exp_constraints_encoder::new_for_complete_semantics()),
        Enc::ExpCf => Box::new(exp_constraints_encoder::new_for_conflict_freeness()),
        Enc::Hybrid => Box::<HybridCompleteConstraintsEncoder>::default(),
        Enc::Stable => Box::<DefaultStableConstraintsEncoder>::default(),
        Enc::NoEnc => panic!("no encoder"),
    }
}

#[derive(Clone, Copy, Debug, PartialEq, Eq, Hash, PartialOrd, Ord, Serialize, Deserialize)]
pub enum Q {
    SE,
    DC,
    DS,
}

impl Q {
    pub fn name(self) -> &'static str {
        match self {
            Q::SE => "SE",
            Q::DC => "DC",
            Q::DS => "DS",
        }
    }
}

#[derive(Clone, Copy, Debug, PartialEq, Eq, Hash, Serialize, Deserialize)]
pub enum Kind {
    Gr,
    Co,
    Pr,
    St,
    Sst,
    Stg,
    Id,
}

/// The solver type `crustabri solve` uses for a problem.
pub fn kind_for(q: Q, sem: Sem) -> Kind {
    match (q, sem) {
        (Q::SE, Sem::GR) | (Q::SE, Sem::CO) => Kind::Gr,
        (Q::DS, Sem::GR) | (Q::DS, Sem::CO) => Kind::Gr,
        (Q::DC, Sem::GR) => Kind::Gr,
        (Q::DC, Sem::CO) | (Q::DC, Sem::PR) => Kind::Co,
        (_, Sem::PR) => Kind::Pr,
        (_, Sem::ST) => Kind::St,
        (_, Sem::SST) => Kind::Sst,
        (_, Sem::STG) => Kind::Stg,
        (_, Sem::ID) => Kind::Id,
    }
}

/// Encoders selectable for a problem (every value of `--encoding`, plus the default).
pub fn encodings_for(q: Q, sem: Sem) -> Vec<Enc> {
    match kind_for(q, sem) {
        Kind::Gr => vec![Enc::NoEnc],
        Kind::St => vec![Enc::Stable],
        Kind::Stg => vec![Enc::AuxCf, Enc::ExpCf],
        Kind::Pr if q == Q::SE => vec![Enc::AuxAdm, Enc::AuxCo, Enc::ExpCo, Enc::Hybrid],
        _ => vec![Enc::AuxCo, Enc::ExpCo, Enc::Hybrid],
    }
}

/// The family the encoder characterises.
pub fn base_of(e: Enc) -> &'static str {
    match e {
        Enc::AuxCf | Enc::ExpCf => "cf",
        Enc::AuxAdm => "adm",
        Enc::Stable => "st",
        _ => "co",
    }
}

#[derive(Clone, Debug, PartialEq, Eq)]
pub struct Member<T> {
    pub id: usize,
    pub label: T,
}

pub type Ext<T> = Vec<Member<T>>;

fn own<T: LabelType>(v: Vec<&Argument<T>>) -> Ext<T> {
    v.into_iter().map(|a| Member { id: a.id(), label: a.label().clone() }).collect()
}

pub enum SolverObj<'a, T: LabelType> {
    Gr(GroundedSemanticsSolver<'a, T>),
    Co(CompleteSemanticsSolver<'a, T>),
    Pr(PreferredSemanticsSolver<'a, T>),
    St(StableSemanticsSolver<'a, T>),
    Sst(SemiStableSemanticsSolver<'a, T>),
    Stg(StageSemanticsSolver<'a, T>),
    Id(IdealSemanticsSolver<'a, T>),
}

impl<'a, T: LabelType> SolverObj<'a, T> {
    pub fn new(af: &'a AAFramework<T>, kind: Kind, enc: Enc, factory: Box<SatSolverFactoryFn>) -> Self {
        match kind {
            Kind::Gr => SolverObj::Gr(GroundedSemanticsSolver::new(af)),
            Kind::Co => SolverObj::Co(CompleteSemanticsSolver::new_with_sat_solver_factory_and_constraints_encoder(
                af,
                factory,
                encoder(enc),
            )),
            Kind::Pr => SolverObj::Pr(PreferredSemanticsSolver::new_with_sat_solver_factory_and_constraints_encoder(
                af,
                factory,
                encoder(enc),
            )),
            Kind::St => SolverObj::St(StableSemanticsSolver::new_with_sat_solver_factory(af, factory)),
            Kind::Sst => SolverObj::Sst(SemiStableSemanticsSolver::new_with_sat_solver_factory_and_constraints_encoder(
                af,
                factory,
                encoder(enc),
            )),
            Kind::Stg => SolverObj::Stg(StageSemanticsSolver::new_with_sat_solver_factory_and_constraints_encoder(
                af,
                factory,
                encoder(enc),
            )),
            Kind::Id => SolverObj::Id(IdealSemanticsSolver::new_with_sat_solver_factory_and_constraints_encoder(
                af,
                factory,
                encoder(enc),
            )),
        }
    }

    pub fn supports(kind: Kind, q: Q) -> bool {
        !matches!((kind, q), (Kind::Co, Q::SE) | (Kind::Co, Q::DS) | (Kind::Pr, Q::DC))
    }

    pub fn se(&mut self) -> Option<Ext<T>> {
        match self {
            SolverObj::Gr(s) => s.compute_one_extension().map(own),
            SolverObj::Pr(s) => s.compute_one_extension().map(own),
            SolverObj::St(s) => s.compute_one_extension().map(own),
            SolverObj::Sst(s) => s.compute_one_extension().map(own),
            SolverObj::Stg(s) => s.compute_one_extension().map(own),
            SolverObj::Id(s) => s.compute_one_extension().map(own),
            SolverObj::Co(_) => panic!("unsupported"),
        }
    }

    /// Credulous query; `cert` selects the `_with_certificate` entry point. A single
    /// argument goes through the single-argument entry point, as a caller would.
    pub fn dc(&mut self, args: &[&T], cert: bool) -> (bool, Option<Ext<T>>) {
        macro_rules! go {
            ($s:expr) => {
                if cert {
                    let (b, c) = if args.len() == 1 {
                        $s.is_credulously_accepted_with_certificate(args[0])
                    } else {
                        $s.are_credulously_accepted_with_certificate(args)
                    };
                    (b, c.map(own))
                } else if args.len() == 1 {
                    ($s.is_credulously_accepted(args[0]), None)
                } else {
                    ($s.are_credulously_accepted(args), None)
                }
            };
        }
        match self {
            SolverObj::Gr(s) => go!(s),
            SolverObj::Co(s) => go!(s),
            SolverObj::St(s) => go!(s),
            SolverObj::Sst(s) => go!(s),
            SolverObj::Stg(s) => go!(s),
            SolverObj::Id(s) => go!(s),
            SolverObj::Pr(_) => panic!("unsupported"),
        }
    }

    pub fn ds(&mut self, args: &[&T], cert: bool) -> (bool, Option<Ext<T>>) {
        macro_rules! go {
            ($s:expr) => {
                if cert {
                    let (b, c) = if args.len() == 1 {
                        $s.is_skeptically_accepted_with_certificate(args[0])
                    } else {
                        $s.are_skeptically_accepted_with_certificate(args)
                    };
                    (b, c.map(own))
                } else if args.len() == 1 {
                    ($s.is_skeptically_accepted(args[0]), None)
                } else {
                    ($s.are_skeptically_accepted(args), None)
                }
            };
        }
        match self {
            SolverObj::Gr(s) => go!(s),
            SolverObj::Pr(s) => go!(s),
            SolverObj::St(s) => go!(s),
            SolverObj::Sst(s) => go!(s),
            SolverObj::Stg(s) => go!(s),
            SolverObj::Id(s) => go!(s),
            SolverObj::Co(_) => panic!("unsupported"),
        }
    }
}

/// Maps a returned set onto oracle indices and checks the "caller's own arguments, each once" clause.
pub struct LabelMap<'a, T: LabelType> {
    pub af: &'a AAFramework<T>,
    pub index: HashMap<T, usize>,
}

impl<'a, T: LabelType> LabelMap<'a, T> {
    pub fn new(af: &'a AAFramework<T>, labels: &[T]) -> Self {
        LabelMap { af, index: labels.iter().cloned().enumerate().map(|(i, l)| (l, i)).collect() }
    }
    pub fn mask(&self, ext: &Ext<T>) -> Result<u32, String> {
        let mut m = 0u32;
        for mem in ext {
            let i = match self.index.get(&mem.label) {
                Some(i) => *i,
                None => return Err(format!("member with label {} is not an argument of the framework", mem.label)),
            };
            match self.af.argument_set().get_argument(&mem.label) {
                Ok(a) if a.id() == mem.id => {}
                Ok(a) => {
                    return Err(format!(
                        "member {} has id {} but the framework's argument has id {}",
                        mem.label,
                        mem.id,
                        a.id()
                    ))
                }
                Err(_) => return Err(format!("member {} unknown to the framework", mem.label)),
            }
            if m & (1 << i) != 0 {
                return Err(format!("member {} listed twice", mem.label));
            }
            m |= 1 << i;
        }
        Ok(m)
    }
}

/// A snapshot of a framework's observable content (for "querying never modifies the framework").
pub fn snapshot<T: LabelType>(af: &AAFramework<T>) -> (Vec<(usize, String)>, Vec<(usize, usize)>, usize, usize) {
    let args: Vec<(usize, String)> = af.argument_set().iter().map(|a| (a.id(), a.label().to_string())).collect();
    let mut atts: Vec<(usize, usize)> = af.iter_attacks().map(|t| (t.attacker().id(), t.attacked().id())).collect();
    atts.sort();
    (args, atts, af.n_arguments(), af.n_attacks())
}
