use std::path::PathBuf;
use vharness::checks;
use vharness::engine::{drive, Options, Tier};

fn usage() -> ! {
    eprintln!("usage: vcheck <Cxx> [--tier quick|thorough] [--seed N] [--replay FILE] [--cases N]");
    std::process::exit(2);
}

fn main() {
    let args: Vec<String> = std::env::args().skip(1).collect();
    if args.is_empty() {
        usage();
    }
    let id = args[0].clone();
    let mut tier = match std::env::var("VERIF_TIER").as_deref() {
        Ok("thorough") => Tier::Thorough,
        _ => Tier::Quick,
    };
    let mut seed: u64 = std::env::var("VERIF_SEED").ok().and_then(|s| s.trim().parse::<i128>().ok()).map(|v| v as u64).unwrap_or(1);
    let mut replay = None;
    let mut cases_override = None;
    let mut i = 1;
    while i < args.len() {
        match args[i].as_str() {
            "--tier" => {
                i += 1;
                tier = match args.get(i).map(|s| s.as_str()) {
                    Some("quick") => Tier::Quick,
                    Some("thorough") => Tier::Thorough,
                    _ => usage(),
                };
            }
            "quick" => tier = Tier::Quick,
            "thorough" => tier = Tier::Thorough,
            "--seed" => {
                i += 1;
                seed = args.get(i).and_then(|s| s.parse::<i128>().ok()).map(|v| v as u64).unwrap_or_else(|| usage());
            }
            "--replay" => {
                i += 1;
                replay = Some(PathBuf::from(args.get(i).unwrap_or_else(|| usage())));
            }
            "--cases" => {
                i += 1;
                cases_override = args.get(i).and_then(|s| s.parse().ok());
            }
            _ => usage(),
        }
        i += 1;
    }
    let verif_dir = PathBuf::from(std::env::var("VERIF_DIR").unwrap_or_else(|_| "/verif".to_string()));
    let opts = Options { tier, seed, replay, verif_dir, cases_override };
    std::env::set_var("RUST_BACKTRACE", "0");
    vharness::util::silence_panics();

    // global watchdog: a run that does not finish decides nothing
    let limit = std::env::var("VERIF_WATCHDOG_S").ok().and_then(|s| s.parse().ok()).unwrap_or(match tier {
        Tier::Quick => 900u64,
        Tier::Thorough => 5400u64,
    });
    {
        let id = id.clone();
        std::thread::spawn(move || {
            std::thread::sleep(std::time::Duration::from_secs(limit));
            // a violation established by one worker while another never returns is not lost
            let reported = vharness::engine::emergency_report();
            if !reported {
                println!("INCONCLUSIVE property={} watchdog after {} s", id, limit);
            }
            // external solvers, command-line runs and fuzz processes must not outlive the check
            vharness::util::kill_descendants();
            std::process::exit(if reported { 1 } else { 2 });
        });
    }

    vharness::extsat::cleanup_stale_scratch();
    if let Err(e) = vharness::oracle::self_test() {
        println!("INCONCLUSIVE oracle self-test failed: {}", e);
        std::process::exit(2);
    }

    if let Err(e) = vharness::oracle::self_test_medium() {
        println!("INCONCLUSIVE medium-size oracle self-test failed: {}", e);
        std::process::exit(2);
    }
    if let Err(e) = vharness::checks::composite::self_test_closed() {
        println!("INCONCLUSIVE closed-form self-test failed: {}", e);
        std::process::exit(2);
    }
    if let Err(e) = vharness::checks::composite::self_test_gate() {
        println!("INCONCLUSIVE gate-rule self-test failed: {}", e);
        std::process::exit(2);
    }

    let code = match id.as_str() {
        "C01" => drive(&checks::statics::Statics { which: checks::statics::Which::C01 }, &opts),
        "C02" => drive(&checks::statics::Statics { which: checks::statics::Which::C02 }, &opts),
        "C03" => drive(&checks::statics::Statics { which: checks::statics::Which::C03 }, &opts),
        "C04" => drive(&checks::statics::Statics { which: checks::statics::Which::C04 }, &opts),
        "C05" => drive(&checks::cli::Cli, &opts),
        "C06" => drive(&checks::config::Config, &opts),
        "C07" => drive(&checks::multi::Multi, &opts),
        "C08" => drive(&checks::dynamic::Dynamic { faults: false }, &opts),
        "C09" => drive(&checks::dynamic::Dynamic { faults: true }, &opts),
        "C10" => drive(&checks::encodings::Encodings, &opts),
        "C11" => drive(&checks::metamorphic::Meta, &opts),
        "C12" => drive(&checks::store::Store, &opts),
        "C13" => drive(&checks::readers::Readers, &opts),
        "C14" => drive(&checks::writers::Writers, &opts),
        "C15" => drive(&checks::satobj::SatObj, &opts),
        "C16" => drive(&checks::exchange::Exchange, &opts),
        "C17" => drive(&checks::faults::Faults, &opts),
        "C18" => drive(&checks::callbound::CallBound, &opts),
        "C19" => drive(&checks::equiv::Equiv, &opts),
        _ => {
            eprintln!("unknown property {}", id);
            2
        }
    };
    vharness::extsat::cleanup_scratch();
    std::process::exit(code);
}
