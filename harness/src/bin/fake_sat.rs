//! Harness-owned external SAT "solver".
//!
//! usage: fake_sat cfg=<path>
//! Reads DIMACS from stdin, validates it strictly, logs one JSON line per event to the
//! log named in the configuration, solves with CaDiCaL and prints a SAT-competition reply
//! shaped (and possibly corrupted) as the configuration says.

use serde_json::{json, Value};
use std::io::{Read, Write};

fn log(path: &str, v: Value) {
    if path.is_empty() {
        return;
    }
    if let Ok(mut f) = std::fs::OpenOptions::new().create(true).append(true).open(path) {
        let _ = writeln!(f, "{}", v);
    }
}

struct Parsed {
    wellformed: bool,
    problem: String,
    header_vars: i64,
    header_clauses: i64,
    max_var: i64,
    n_clauses: i64,
    clauses: Vec<Vec<i32>>,
}

/// Strict DIMACS CNF: exactly one `p cnf V C` header before any clause, every literal
/// |l| <= V, exactly C clauses, every clause terminated by 0, nothing else.
fn parse(input: &str) -> Parsed {
    let mut p = Parsed {
        wellformed: true,
        problem: String::new(),
        header_vars: -1,
        header_clauses: -1,
        max_var: 0,
        n_clauses: 0,
        clauses: vec![],
    };
    let mut bad = |p: &mut Parsed, why: String| {
        if p.wellformed {
            p.wellformed = false;
            p.problem = why;
        }
    };
    let mut current: Vec<i32> = vec![];
    let mut seen_header = false;
    for (ln, line) in input.split('\n').enumerate() {
        let line = line.strip_suffix('\r').unwrap_or(line);
        if line.starts_with('c') {
            continue;
        }
        if line.trim().is_empty() {
            continue;
        }
        if line.starts_with('p') {
            if seen_header {
                bad(&mut p, format!("line {}: second header", ln + 1));
                continue;
            }
            seen_header = true;
            let toks: Vec<&str> = line.split_ascii_whitespace().collect();
            if toks.len() != 4 || toks[0] != "p" || toks[1] != "cnf" {
                bad(&mut p, format!("line {}: malformed header {:?}", ln + 1, line));
                continue;
            }
            match (toks[2].parse::<i64>(), toks[3].parse::<i64>()) {
                (Ok(v), Ok(c)) if v >= 0 && c >= 0 => {
                    p.header_vars = v;
                    p.header_clauses = c;
                }
                _ => bad(&mut p, format!("line {}: malformed header numbers", ln + 1)),
            }
            continue;
        }
        if !seen_header {
            bad(&mut p, format!("line {}: clause before header", ln + 1));
        }
        for tok in line.split_ascii_whitespace() {
            match tok.parse::<i64>() {
                Ok(0) => {
                    p.n_clauses += 1;
                    p.clauses.push(std::mem::take(&mut current));
                }
                Ok(l) => {
                    let v = l.abs();
                    if v > p.max_var {
                        p.max_var = v;
                    }
                    if v > i32::MAX as i64 {
                        bad(&mut p, format!("line {}: literal too large", ln + 1));
                    } else {
                        current.push(l as i32);
                    }
                }
                Err(_) => bad(&mut p, format!("line {}: token {:?} is not a literal", ln + 1, tok)),
            }
        }
    }
    if !current.is_empty() {
        bad(&mut p, "last clause is not terminated by 0".to_string());
    }
    if !seen_header {
        bad(&mut p, "no header".to_string());
    } else {
        if p.max_var > p.header_vars {
            let why = format!("header declares {} variables but variable {} occurs", p.header_vars, p.max_var);
            bad(&mut p, why);
        }
        if p.n_clauses != p.header_clauses {
            let why = format!("header declares {} clauses but {} are given", p.header_clauses, p.n_clauses);
            bad(&mut p, why);
        }
    }
    p
}

const GARBAGE_MARK: &str = "\u{1}GARBAGE\u{1}";

fn main() {
    // Exactly the arguments the harness passes are accepted: a torn, duplicated or missing
    // option makes this solver refuse to run (no output, exit status 64), as a real solver
    // started with a wrong command line would.
    let args: Vec<String> = std::env::args().skip(1).collect();
    let cfg_path = match args.as_slice() {
        [one] if one.starts_with("cfg=") => one["cfg=".len()..].to_string(),
        _ => std::process::exit(64),
    };
    let cfg: Value = match std::fs::read_to_string(&cfg_path).ok().and_then(|s| serde_json::from_str(&s).ok()) {
        Some(v) => v,
        None => std::process::exit(64),
    };
    let logp = cfg["log"].as_str().unwrap_or("").to_string();
    let pid = std::process::id();
    // invocation index = number of "start" events already logged
    let inv = std::fs::read_to_string(&logp)
        .map(|s| s.lines().filter(|l| l.contains("\"event\":\"start\"")).count())
        .unwrap_or(0);
    log(&logp, json!({"event":"start","inv":inv,"pid":pid}));

    let comments_before = cfg["comments_before"].as_u64().unwrap_or(0) as usize;
    let comments_between = cfg["comments_between"].as_u64().unwrap_or(0) as usize;
    let comments_after = cfg["comments_after"].as_u64().unwrap_or(0) as usize;
    let comment_len = cfg["comment_len"].as_u64().unwrap_or(40) as usize;
    let v_width = cfg["v_width"].as_u64().unwrap_or(10) as usize;
    let io_order = cfg["io_order"].as_str().unwrap_or("read_first").to_string();
    let crlf = cfg["crlf"].as_bool().unwrap_or(false);
    let nl = if crlf { "\r\n" } else { "\n" };
    let fault = cfg["faults"][inv.to_string()].as_str().unwrap_or("").to_string();
    let comment_line = |i: usize| -> String {
        let mut s = format!("c {} ", i);
        while s.len() < comment_len {
            s.push('x');
        }
        s
    };

    // diagnostics on stderr (real solvers print warnings and statistics there): `stderr_bytes` bytes in
    // lines of ~100 bytes, before reading the instance (0), before the reply (1) or after it (2)
    let stderr_bytes = cfg["stderr_bytes"].as_u64().unwrap_or(0) as usize;
    let stderr_when = cfg["stderr_when"].as_u64().unwrap_or(0);
    let diagnostics = |when: u64| {
        if stderr_bytes == 0 || stderr_when != when {
            return;
        }
        log(&logp, json!({"event":"writing","inv":inv,"pid":pid,"what":"stderr","bytes":stderr_bytes}));
        let mut line = String::from("c fake_sat diagnostic ");
        while line.len() < 99 {
            line.push('w');
        }
        line.push('\n');
        let mut err = std::io::stderr();
        let mut written = 0usize;
        while written < stderr_bytes {
            if err.write_all(line.as_bytes()).is_err() {
                break;
            }
            written += line.len();
        }
        log(&logp, json!({"event":"written","inv":inv,"pid":pid,"what":"stderr"}));
    };
    diagnostics(0);

    let stdout = std::io::stdout();
    let mut out = stdout.lock();
    let mut banner = String::new();
    for i in 0..comments_before {
        banner.push_str(&comment_line(i));
        banner.push_str(nl);
    }
    if io_order == "write_first" && !banner.is_empty() {
        log(&logp, json!({"event":"writing","inv":inv,"pid":pid,"what":"banner-before-reading","bytes":banner.len()}));
        let _ = out.write_all(banner.as_bytes());
        let _ = out.flush();
        log(&logp, json!({"event":"written","inv":inv,"pid":pid,"what":"banner-before-reading"}));
        banner.clear();
    }

    let mut input = String::new();
    let read_ok = if io_order == "echo" {
        // a chatty solver: comments are printed while the instance is being read
        log(&logp, json!({"event":"writing","inv":inv,"pid":pid,"what":"echo-stream","bytes":u32::MAX}));
        let mut raw: Vec<u8> = vec![];
        let mut buf = [0u8; 4096];
        let mut ok = true;
        let mut k = 0usize;
        let stdin = std::io::stdin();
        let mut lock = stdin.lock();
        loop {
            match lock.read(&mut buf) {
                Ok(0) => break,
                Ok(n) => {
                    raw.extend_from_slice(&buf[..n]);
                    let mut line = format!("c read {} bytes ", raw.len());
                    while line.len() < 2 * n {
                        line.push('.');
                    }
                    line.push_str(nl);
                    let _ = out.write_all(line.as_bytes());
                    let _ = out.flush();
                    k += 1;
                }
                Err(_) => {
                    ok = false;
                    break;
                }
            }
        }
        log(&logp, json!({"event":"written","inv":inv,"pid":pid,"what":"echo-stream","chunks":k}));
        match String::from_utf8(raw) {
            Ok(s) => {
                input = s;
                ok
            }
            Err(_) => false,
        }
    } else {
        std::io::stdin().read_to_string(&mut input).is_ok()
    };
    let p = parse(&input);
    log(
        &logp,
        json!({"event":"parsed","inv":inv,"pid":pid,"read_ok":read_ok,"bytes":input.len(),"wellformed":p.wellformed,
               "problem":p.problem,"header_vars":p.header_vars,"header_clauses":p.header_clauses,
               "max_var":p.max_var,"n_clauses":p.n_clauses,
               "text": if input.len() <= 400 || !p.wellformed { Value::String(input.chars().take(2000).collect()) } else { Value::Null }}),
    );

    match fault.as_str() {
        "exit_silent" => {
            log(&logp, json!({"event":"done","inv":inv,"fault":fault}));
            std::process::exit(0);
        }
        "exit_nonzero" => {
            log(&logp, json!({"event":"done","inv":inv,"fault":fault}));
            std::process::exit(3);
        }
        "crash" => {
            log(&logp, json!({"event":"done","inv":inv,"fault":fault}));
            std::process::abort();
        }
        _ => {}
    }

    // strict mode: an ill-formed instance is refused like a real strict solver would
    let strict = cfg["strict"].as_bool().unwrap_or(true);
    if !p.wellformed && strict {
        let msg = format!("c fake_sat: ill-formed instance: {}{}", p.problem, nl);
        let _ = out.write_all(msg.as_bytes());
        let _ = out.flush();
        log(&logp, json!({"event":"done","inv":inv,"refused":true}));
        std::process::exit(1);
    }

    diagnostics(1);
    let mut solver: cadical::Solver = cadical::Solver::new();
    for c in &p.clauses {
        solver.add_clause(c.iter().copied());
    }
    let res = solver.solve();
    let nvars = p.header_vars.max(p.max_var) as i32;

    let flavour = cfg["garbage_flavour"].as_str().unwrap_or("ascii").to_string();
    let mut reply = banner;
    if fault == "verbatim" {
        reply.push_str(cfg["verbatim"][inv.to_string()].as_str().or(cfg["verbatim_all"].as_str()).unwrap_or(""));
    } else if fault == "unknown" {
        reply.push_str("s UNKNOWN");
        reply.push_str(nl);
    } else if fault == "garbage" {
        reply.push_str(if flavour == "ascii" { "this line is not part of the output format" } else { GARBAGE_MARK });
        reply.push_str(nl);
        reply.push_str(if res == Some(true) { "s SATISFIABLE" } else { "s UNSATISFIABLE" });
        reply.push_str(nl);
    } else {
        match res {
            Some(true) => {
                reply.push_str("s SATISFIABLE");
                reply.push_str(nl);
                for i in 0..comments_between {
                    reply.push_str(&comment_line(i));
                    reply.push_str(nl);
                }
                if fault != "status_no_model" {
                    let mut lits: Vec<String> = (1..=nvars)
                        .map(|v| match solver.value(v) {
                            Some(false) => format!("-{}", v),
                            _ => format!("{}", v),
                        })
                        .collect();
                    if fault == "truncated_model" {
                        // cut the model short and drop the terminating 0
                        let keep = lits.len() / 2;
                        lits.truncate(keep);
                        if cfg["trunc_flavour"].as_u64().unwrap_or(0) == 1 {
                            // the solver died right after the sign of the next literal
                            lits.push("-".to_string());
                        }
                    } else {
                        lits.push("0".to_string());
                    }
                    let w = if v_width == 0 { lits.len().max(1) } else { v_width };
                    if lits.is_empty() {
                        reply.push_str("v");
                        reply.push_str(nl);
                    }
                    for chunk in lits.chunks(w) {
                        reply.push_str("v ");
                        reply.push_str(&chunk.join(" "));
                        reply.push_str(nl);
                    }
                }
            }
            Some(false) => {
                if fault == "status_no_model" || fault == "truncated_model" {
                    // the failure must hit this call whatever the verdict: cut the status line
                    reply.push_str("s UNSATISFIA");
                    reply.push_str(nl);
                } else {
                    reply.push_str("s UNSATISFIABLE");
                    reply.push_str(nl);
                }
            }
            None => {
                reply.push_str("s UNKNOWN");
                reply.push_str(nl);
            }
        }
    }
    if fault == "garbage_after" {
        // the verdict is followed by output that is not part of the format (e.g. an error message of a dying solver)
        reply.push_str(if flavour == "ascii" { "ERROR: internal error, aborting" } else { GARBAGE_MARK });
        reply.push_str(nl);
    }
    for i in 0..comments_after {
        reply.push_str(&comment_line(i));
        reply.push_str(nl);
    }
    // a garbled line need not be text at all: the marker is replaced by bytes that are not valid UTF-8
    let mut reply: Vec<u8> = reply.into_bytes();
    if let Some(pos) = reply.windows(GARBAGE_MARK.len()).position(|w| w == GARBAGE_MARK.as_bytes()) {
        let junk: &[u8] = match flavour.as_str() {
            "binary" => b"\xff\xfe\x00\x80\x81 core dumped \xf5\xc0",
            "cut_utf8" => b"c r\xc3\xa9sultat interrompu au milieu d'un caract\xc3",
            _ => b"erreur d\xe9tect\xe9e : arr\xeat",
        };
        reply.splice(pos..pos + GARBAGE_MARK.len(), junk.iter().copied());
    }
    log(&logp, json!({"event":"writing","inv":inv,"pid":pid,"what":"reply","bytes":reply.len(),"sat":res}));
    let chunked = io_order == "interleaved";
    let ok = if chunked {
        let mut ok = true;
        for ch in reply.chunks(4096) {
            ok &= out.write_all(ch).is_ok();
            ok &= out.flush().is_ok();
        }
        ok
    } else {
        out.write_all(&reply).is_ok() && out.flush().is_ok()
    };
    diagnostics(2);
    log(&logp, json!({"event":"done","inv":inv,"pid":pid,"write_ok":ok,"reply_bytes":reply.len()}));
    let code = match res {
        Some(true) => 10,
        Some(false) => 20,
        None => 0,
    };
    std::process::exit(code);
}
