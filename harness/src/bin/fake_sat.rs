fn main(){}
