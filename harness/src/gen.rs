//! Generators of abstract cases (proptest strategies). All randomness lives here.

use proptest::collection::vec;
use proptest::prelude::*;
use serde::{Deserialize, Serialize};

/// An abstract framework: `n` arguments 0..n, attack list possibly with repeats.
#[derive(Clone, Debug, PartialEq, Eq, Hash, Serialize, Deserialize)]
pub struct AbsGraph {
    pub n: usize,
    pub att: Vec<(u8, u8)>,
}

impl AbsGraph {
    pub fn att_usize(&self) -> Vec<(usize, usize)> {
        self.att.iter().map(|&(a, b)| (a as usize, b as usize)).collect()
    }
    pub fn canonical(&self) -> (usize, Vec<(u8, u8)>) {
        let mut a = self.att.clone();
        a.sort();
        (self.n, a)
    }
    pub fn has_duplicates(&self) -> bool {
        let mut a = self.att.clone();
        a.sort();
        a.windows(2).any(|w| w[0] == w[1])
    }
    pub fn disjoint_union(&self, o: &AbsGraph) -> AbsGraph {
        let off = self.n as u8;
        let mut att = self.att.clone();
        att.extend(o.att.iter().map(|&(a, b)| (a + off, b + off)));
        AbsGraph { n: self.n + o.n, att }
    }
}

/// Monotone index mapping (keeps shrinking effective).
pub fn idx(raw: u16, len: usize) -> usize {
    if len == 0 {
        0
    } else {
        ((raw as usize) * len) >> 16
    }
}

fn er(nmin: usize, nmax: usize) -> impl Strategy<Value = AbsGraph> {
    // density class first, so that sparse and dense graphs both occur at every size;
    // self-attacks are allowed in a third of the graphs only (they trivialise the attacker)
    (nmin..=nmax, 0usize..=5, 0u8..3).prop_flat_map(|(n, dens, selfmode)| {
        let max_m = match dens {
            0 => n / 2,
            1 => n,
            2 => n + n / 2,
            3 => 2 * n,
            4 => (n * n) / 2,
            _ => n * n + 2,
        };
        vec((any::<u16>(), any::<u16>()), 0..=max_m).prop_map(move |raw| {
            let att = if n == 0 {
                vec![]
            } else {
                raw.into_iter()
                    .filter_map(|(a, b)| {
                        let a = idx(a, n);
                        if selfmode == 0 || n == 1 {
                            Some((a as u8, idx(b, n) as u8))
                        } else {
                            // b ranges over the other arguments
                            let b = (a + 1 + idx(b, n - 1)) % n;
                            Some((a as u8, b as u8))
                        }
                    })
                    .filter(|(a, b)| selfmode == 0 || a != b)
                    .collect()
            };
            AbsGraph { n, att }
        })
    })
}

fn cycle_with_chords(nmax: usize) -> impl Strategy<Value = AbsGraph> {
    (1usize..=nmax.max(1), vec((any::<u16>(), any::<u16>()), 0..=3), any::<bool>()).prop_map(|(n, chords, sym)| {
        let mut att: Vec<(u8, u8)> = (0..n).map(|i| (i as u8, ((i + 1) % n) as u8)).collect();
        if sym {
            att.extend((0..n).map(|i| (((i + 1) % n) as u8, i as u8)));
        }
        att.extend(chords.into_iter().map(|(a, b)| (idx(a, n) as u8, idx(b, n) as u8)));
        AbsGraph { n, att }
    })
}

fn symmetric_clusters(nmax: usize) -> impl Strategy<Value = AbsGraph> {
    (1usize..=nmax.max(1), vec((any::<u16>(), any::<u16>()), 0..=nmax + 2), vec((any::<u16>(), any::<u16>()), 0..=2)).prop_map(
        |(n, pairs, extra)| {
            let mut att = vec![];
            for (a, b) in pairs {
                let (a, b) = (idx(a, n) as u8, idx(b, n) as u8);
                att.push((a, b));
                att.push((b, a));
            }
            att.extend(extra.into_iter().map(|(a, b)| (idx(a, n) as u8, idx(b, n) as u8)));
            AbsGraph { n, att }
        },
    )
}

/// "Fan-in": one target with k attackers each having m attackers (product of defender-set
/// sizes crosses the hybrid encoder's threshold from both sides).
fn fan_in(nmax: usize) -> impl Strategy<Value = AbsGraph> {
    (1usize..=6, 1usize..=6, vec((any::<u16>(), any::<u16>()), 0..=2)).prop_map(move |(k, m, extra)| {
        // target 0; attackers 1..=k ; defenders k+1.. (shared pool of size m)
        let mut k = k;
        let mut m = m;
        while 1 + k + m > nmax && (k > 1 || m > 1) {
            if m > 1 && m >= k {
                m -= 1;
            } else if k > 1 {
                k -= 1;
            }
        }
        let n = (1 + k + m).min(nmax.max(1));
        let mut att = vec![];
        if n >= 1 + k + m {
            for a in 1..=k {
                att.push((a as u8, 0u8));
                for d in 0..m {
                    att.push(((1 + k + d) as u8, a as u8));
                }
            }
        }
        att.extend(extra.into_iter().map(|(a, b)| (idx(a, n) as u8, idx(b, n) as u8)));
        AbsGraph { n, att }
    })
}

fn small_component(nmax: usize) -> BoxedStrategy<AbsGraph> {
    prop_oneof![
        3 => er(1, nmax.max(1)),
        2 => cycle_with_chords(nmax.max(1)),
        1 => symmetric_clusters(nmax.max(1)),
        1 => Just(AbsGraph { n: 1, att: vec![(0, 0)] }),
        1 => Just(AbsGraph { n: 1, att: vec![] }),
    ]
    .boxed()
}

/// Union of 2..=4 components whose sizes sum to <= nmax: balanced (each up to nmax/2) or
/// unbalanced (one component of up to nmax-1 arguments next to small ones).
fn components(nmax: usize) -> impl Strategy<Value = AbsGraph> {
    let per = (nmax / 2).max(1);
    let balanced = vec(small_component(per), 2..=4);
    let unbalanced = (small_component(nmax.saturating_sub(1).max(1)), vec(small_component((nmax / 3).max(1)), 1..=3), any::<bool>()).prop_map(|(big, mut small, big_last)| {
        if big_last {
            small.push(big);
        } else {
            small.insert(0, big);
        }
        small
    });
    prop_oneof![1 => balanced.boxed(), 1 => unbalanced.boxed()].prop_map(move |parts| {
        let mut g = AbsGraph { n: 0, att: vec![] };
        for p in parts {
            if g.n + p.n <= nmax {
                g = g.disjoint_union(&p);
            }
        }
        g
    })
}

/// The general framework generator: shapes mixed by construction.
pub fn graph(nmax: usize) -> BoxedStrategy<AbsGraph> {
    if nmax < 6 {
        return prop_oneof![
            4 => er(0, nmax),
            3 => components(nmax),
            2 => cycle_with_chords(nmax),
            1 => symmetric_clusters(nmax),
            2 => fan_in(nmax),
        ]
        .boxed();
    }
    prop_oneof![
        4 => er(0, nmax),
        3 => components(nmax),
        2 => cycle_with_chords(nmax),
        1 => symmetric_clusters(nmax),
        2 => fan_in(nmax),
        1 => role_gadget(nmax),
    ]
    .boxed()
}

/// Graphs in which the semantic roles differ as much as they can: the textbook gadget whose sink is in
/// every preferred extension without being ideal (0 <-> 1, both attack 2, 2 attacks 3), an unattacked
/// argument (grounded members), every further argument hanging below these with one or two attackers
/// (layered defence dependencies), optionally linked into one connected component, perturbed by up to three
/// generated attacks and relabelled. Random graphs of this size almost never separate
/// "in every preferred extension", "ideal" and "grounded" like this.
pub fn role_gadget(nmax: usize) -> BoxedStrategy<AbsGraph> {
    (6usize..=nmax.max(6), vec(any::<u16>(), nmax.max(6)), vec((any::<u16>(), any::<u16>()), 0..=3), 0u8..4, any::<u16>())
        .prop_map(|(n, dag, extra, link, perm)| {
            let mut att: Vec<(usize, usize)> = vec![(0, 1), (1, 0), (0, 2), (1, 2), (2, 3), (4, 5)];
            // every further argument hangs below the gadget: it gets one or two attackers among the
            // arguments 2.. created before it (the gadget's sink 3, the unattacked 4, the defeated 5, earlier
            // ones): layered defence dependencies rooted in an argument that is skeptically accepted without
            // being ideal, next to ones rooted in the grounded extension
            for i in 6..n {
                let w = dag[i % dag.len()] as usize;
                att.push((2 + w % (i - 2), i));
                if w & 0x8000 != 0 {
                    att.push((2 + (w >> 4) % (i - 2), i));
                }
            }
            match link {
                1 => att.push((5, 3)),
                2 => att.push((n - 1, 2)),
                3 => att.push((3, 5)),
                _ => {}
            }
            for (a, b) in extra {
                att.push((idx(a, n), idx(b, n)));
            }
            // a generated relabelling, so that the roles do not sit at fixed indices
            let mut order: Vec<usize> = (0..n).collect();
            let mut z = perm as usize + 1;
            for i in (1..n).rev() {
                z = z.wrapping_mul(31).wrapping_add(17);
                order.swap(i, z % (i + 1));
            }
            AbsGraph { n, att: att.into_iter().map(|(a, b)| (order[a] as u8, order[b] as u8)).collect() }
        })
        .boxed()
}

/// Connected-biased generator (single shapes only).
pub fn graph_single(nmax: usize) -> BoxedStrategy<AbsGraph> {
    if nmax < 6 {
        return prop_oneof![
            4 => er(1, nmax),
            2 => cycle_with_chords(nmax),
            1 => symmetric_clusters(nmax),
            2 => fan_in(nmax),
        ]
        .boxed();
    }
    prop_oneof![
        8 => er(1, nmax),
        4 => cycle_with_chords(nmax),
        2 => symmetric_clusters(nmax),
        4 => fan_in(nmax),
        1 => role_gadget(nmax),
    ]
    .boxed()
}

/// Multi-component biased generator.
pub fn graph_multi(nmax: usize) -> BoxedStrategy<AbsGraph> {
    prop_oneof![
        5 => components(nmax),
        1 => er(0, nmax),
    ]
    .boxed()
}

/// How the crustabri object is produced from the abstract graph.
#[derive(Clone, Debug, PartialEq, Eq, Hash, Serialize, Deserialize)]
pub enum Pres {
    /// `ArgumentSet::new_with_labels` over usize labels (label = index + offset) declared in the
    /// order given by sorting on `order_keys`, then `new_attack` per listed attack.
    Direct { offset: u8, order_keys: Vec<u8> },
    /// Through the ICCMA'23 reader (keeps duplicate attack lines). Labels are 1..=n.
    Iccma,
    /// Through the ICCMA'23 reader with ONE attack line repeated `times` times in all (the reader keeps
    /// every copy, so in- and out-degrees as the code sees them reach `times`; the graph is unchanged). At most 700:
    /// several encoders are quadratic in the multiplicity by design (2^16 repeats need tens of GB).
    IccmaRepeated { line: u16, times: u32 },
    /// Through the Aspartix reader; identifiers derived from the index with `style`.
    Apx { style: u8, order_keys: Vec<u8> },
    /// Built by updates with extra arguments inserted and removed again so that ids have holes;
    /// `extra_at` are positions (in declaration order) before which a doomed argument is declared,
    /// `readd` re-adds that many real labels after removing them.
    Sparse { order_keys: Vec<u8>, extra_at: Vec<u8>, readd: u8 },
}

impl Pres {
    pub fn kind(&self) -> &'static str {
        match self {
            Pres::Direct { offset: 252, .. } => "direct-labels-with-coarse-hash",
            Pres::Direct { offset: 253..=255, .. } => "direct-huge-usize-labels",
            Pres::Direct { .. } => "direct",
            Pres::Iccma => "iccma",
            Pres::IccmaRepeated { .. } => "iccma-repeated-line",
            Pres::Apx { .. } => "apx",
            Pres::Sparse { .. } => "sparse",
        }
    }
}

pub fn pres(nmax: usize) -> BoxedStrategy<Pres> {
    prop_oneof![
        60 => (0u8..3, vec(any::<u8>(), nmax)).prop_map(|(o, k)| Pres::Direct { offset: o * 7, order_keys: k }),
        // 252: labels of a type with a coarse Hash; 253-255: label ranges around isize::MAX, 2^32, usize::MAX
        9 => (252u8..=255, vec(any::<u8>(), nmax)).prop_map(|(o, k)| Pres::Direct { offset: o, order_keys: k }),
        40 => Just(Pres::Iccma),
        1 => (any::<u16>(), prop_oneof![6 => 2u32..40, 3 => 250u32..262, 1 => 600u32..700]).prop_map(|(line, times)| Pres::IccmaRepeated { line, times }),
        40 => (prop_oneof![10 => 0u8..4, 1 => Just(4u8)], vec(any::<u8>(), nmax)).prop_map(|(s, k)| Pres::Apx { style: s, order_keys: k }),
        60 => (vec(any::<u8>(), nmax), vec(any::<u8>(), 1..=3), 0u8..3)
            .prop_map(|(k, e, r)| Pres::Sparse { order_keys: k, extra_at: e, readd: r }),
    ]
    .boxed()
}

/// Compact-id presentations only (what the encoders are fed with).
pub fn pres_compact(nmax: usize) -> BoxedStrategy<Pres> {
    prop_oneof![
        60 => (0u8..3, vec(any::<u8>(), nmax)).prop_map(|(o, k)| Pres::Direct { offset: o * 7, order_keys: k }),
        // 252: labels of a type with a coarse Hash; 253-255: label ranges around isize::MAX, 2^32, usize::MAX
        9 => (252u8..=255, vec(any::<u8>(), nmax)).prop_map(|(o, k)| Pres::Direct { offset: o, order_keys: k }),
        40 => Just(Pres::Iccma),
        1 => (any::<u16>(), prop_oneof![6 => 2u32..40, 3 => 250u32..262, 1 => 600u32..700]).prop_map(|(line, times)| Pres::IccmaRepeated { line, times }),
        40 => (prop_oneof![10 => 0u8..4, 1 => Just(4u8)], vec(any::<u8>(), nmax)).prop_map(|(s, k)| Pres::Apx { style: s, order_keys: k }),
    ]
    .boxed()
}

#[derive(Clone, Debug, PartialEq, Eq, Hash, Serialize, Deserialize)]
pub struct GraphCase {
    pub g: AbsGraph,
    pub pres: Pres,
}

pub fn graph_case(nmax: usize) -> BoxedStrategy<GraphCase> {
    (graph(nmax), pres(nmax)).prop_map(|(g, pres)| GraphCase { g, pres }).boxed()
}

/// All digraphs (without repeated attacks) on exactly n labelled arguments.
pub fn all_graphs(n: usize) -> Vec<AbsGraph> {
    let pairs: Vec<(u8, u8)> = (0..n as u8).flat_map(|a| (0..n as u8).map(move |b| (a, b))).collect();
    let mut out = Vec::with_capacity(1 << pairs.len());
    for m in 0u32..(1u32 << pairs.len()) {
        let att = pairs.iter().enumerate().filter(|(i, _)| m & (1 << i) != 0).map(|(_, p)| *p).collect();
        out.push(AbsGraph { n, att });
    }
    out
}
