use crate::engine::Inconclusive;
use crate::satwrap::CapExceeded;
use std::panic::{catch_unwind, resume_unwind, AssertUnwindSafe};

/// Runs `f`, turning a panic of the code under test into `Err(message)`. Harness-level
/// aborts (call cap, inconclusive) are re-raised untouched.
pub fn guard<R>(f: impl FnOnce() -> R) -> Result<R, String> {
    match catch_unwind(AssertUnwindSafe(f)) {
        Ok(r) => Ok(r),
        Err(p) => {
            if p.downcast_ref::<CapExceeded>().is_some() || p.downcast_ref::<Inconclusive>().is_some() {
                resume_unwind(p);
            }
            let msg = if let Some(s) = p.downcast_ref::<&str>() {
                s.to_string()
            } else if let Some(s) = p.downcast_ref::<String>() {
                s.clone()
            } else {
                "panic".to_string()
            };
            Err(msg)
        }
    }
}

pub fn mask_to_vec(m: u32) -> Vec<usize> {
    (0..32).filter(|i| m & (1 << i) != 0).collect()
}

pub fn masks_to_vecs(ms: &[u32]) -> Vec<Vec<usize>> {
    ms.iter().map(|m| mask_to_vec(*m)).collect()
}

pub fn silence_panics() {
    std::panic::set_hook(Box::new(|_| {}));
}

/// Kills every process that descends from this one (found through /proc/<pid>/stat), children first.
pub fn kill_descendants() {
    let me = std::process::id();
    let mut parent_of: Vec<(u32, u32)> = vec![];
    if let Ok(rd) = std::fs::read_dir("/proc") {
        for e in rd.flatten() {
            if let Ok(pid) = e.file_name().to_string_lossy().parse::<u32>() {
                if let Ok(stat) = std::fs::read_to_string(format!("/proc/{}/stat", pid)) {
                    // pid (comm) state ppid ...; comm may contain spaces and parentheses
                    if let Some(rest) = stat.rfind(')').map(|i| &stat[i + 1..]) {
                        if let Some(ppid) = rest.split_whitespace().nth(1).and_then(|t| t.parse::<u32>().ok()) {
                            parent_of.push((pid, ppid));
                        }
                    }
                }
            }
        }
    }
    let mut doomed = vec![me];
    let mut i = 0;
    while i < doomed.len() {
        let p = doomed[i];
        for (pid, ppid) in &parent_of {
            if *ppid == p && !doomed.contains(pid) {
                doomed.push(*pid);
            }
        }
        i += 1;
    }
    for pid in doomed.iter().skip(1).rev() {
        let _ = std::process::Command::new("kill").arg("-9").arg(pid.to_string()).stderr(std::process::Stdio::null()).status();
    }
}
