use crate::engine::Inconclusive;
use crate::satwrap::CapExceeded;
use std::panic::{catch_unwind, resume_unwind, AssertUnwindSafe};

/// Runs `f`, turning a panic of the code under test into `Err(message)`. Harness-level
/// aborts (call cap, inconclusive) are re-raised untouched.
pub fn guard<R>(f: impl FnOnce() -> R) -> Result<R, String> {
    match catch_unwind(AssertUnwindSafe(f)) {
        Ok(r) => Ok(r),
        Err(p) => {
            if p.downcast_ref::<CapExceeded>().is_some() || p.downcast_ref::<Inconclusive>().is_some() {
                resume_unwind(p);
            }
            let msg = if let Some(s) = p.downcast_ref::<&str>() {
                s.to_string()
            } else if let Some(s) = p.downcast_ref::<String>() {
                s.clone()
            } else {
                "panic".to_string()
            };
            Err(msg)
        }
    }
}

pub fn mask_to_vec(m: u32) -> Vec<usize> {
    (0..32).filter(|i| m & (1 << i) != 0).collect()
}

pub fn masks_to_vecs(ms: &[u32]) -> Vec<Vec<usize>> {
    ms.iter().map(|m| mask_to_vec(*m)).collect()
}

pub fn silence_panics() {
    std::panic::set_hook(Box::new(|_| {}));
}
