//! Glue for the libFuzzer targets: a failure is written as a replay file (same format as the
//! property-based driver writes) and then turned into a crash so that libFuzzer saves the input.

use crate::engine::Failure;
use serde_json::{json, Value};

pub fn report(property: &str, f: &Failure, case: Value) -> ! {
    let dir = std::env::var("VERIF_FUZZ_REPLAYS").unwrap_or_else(|_| "/verif/replays/found".to_string());
    let _ = std::fs::create_dir_all(&dir);
    let doc = json!({"property": property, "signature": f.signature, "message": f.message, "origin": "libFuzzer", "case": case});
    let h = crate::engine::stable_hash(&doc.to_string());
    let path = format!("{}/{}-fuzz-{:016x}.json", dir, property, h);
    let _ = std::fs::write(&path, serde_json::to_string_pretty(&doc).unwrap());
    eprintln!("FUZZ-VIOLATION property={} replay={} [{}] {}", property, path, f.signature, f.message);
    std::process::abort();
}
